// Package sim is the common core of every check: the single choice source (rapid), the explicit
// operation trace that doubles as replay file, violation classes, known findings, statistics and
// the per-worker main loop.  See DESIGN.md §2.
package sim

import (
	"encoding/json"
	"flag"
	"fmt"
	"hash/fnv"
	mbits "math/bits"
	"os"
	"path/filepath"
	"runtime/debug"
	"sort"
	"strconv"
	"strings"
	"testing"
	"time"

	"pgregory.net/rapid"
)

// Op is one step of a trace.  Engines give K/A/S their meaning; the shape is generic so that
// traces can be hashed, printed and minimised without knowing the engine.
type Op struct {
	K string   `json:"k"`
	A []int64  `json:"a,omitempty"`
	S []string `json:"s,omitempty"`
}

type Violation struct {
	Class     string `json:"class"`     // oracle id
	Signature string `json:"signature"` // normalised identity of what failed (known-findings key)
	Message   string `json:"message"`
	OpIndex   int    `json:"op_index"`
}

type Knob struct {
	Name  string `json:"name"`
	Value int64  `json:"value"`
}

type Trace struct {
	Property  string     `json:"property"`
	Engine    string     `json:"engine"`
	RapidSeed uint64     `json:"rapid_seed"`
	Knobs     []Knob     `json:"knobs"`
	Ops       []Op       `json:"ops"`
	Violation *Violation `json:"violation,omitempty"`
}

func (tr *Trace) Hash() uint64 {
	h := fnv.New64a()
	for _, k := range tr.Knobs {
		fmt.Fprintf(h, "%s=%d;", k.Name, k.Value)
	}
	for _, o := range tr.Ops {
		fmt.Fprintf(h, "%s%v%v|", o.K, o.A, o.S)
	}
	return h.Sum64()
}

type violationPanic struct{ v *Violation }
type abortPanic struct{}

// Ctx is handed to an engine for one simulated run.
type Ctx struct {
	T        *testing.T // the enclosing test (engines that need testing/synctest bubbles)
	rt       *rapid.T // nil when replaying
	Property string
	Tier     string
	Trace    *Trace
	pos      int // replay cursor (ops)
	kpos     int // replay cursor (knobs)
	st       *Stats

	nontrivial bool
	counters   map[string]int64
	probes     map[string]int64
	simTime    int64
	states     map[uint64]struct{}
	notes      []string
}

func (c *Ctx) Replaying() bool { return c.rt == nil }

// ---- choice source (generation mode only) -------------------------------------------------

func (c *Ctx) mustGen() {
	if c.rt == nil {
		panic("sim: draw attempted while replaying a trace (engine bug: every choice must be recorded in the trace)")
	}
}

// rapid's integer and float generators are deliberately biased towards small magnitudes
// (geometric bit length); schedulers and fault rates need uniform choices, so every draw is
// assembled from unbiased single-bit draws (rapid.Bool), which still shrink towards zero.
func (c *Ctx) bits(label string, k int) uint64 {
	var v uint64
	g := rapid.Bool()
	for i := 0; i < k; i++ {
		v <<= 1
		if g.Draw(c.rt, label) {
			v |= 1
		}
	}
	return v
}

func (c *Ctx) below(label string, n uint64) uint64 {
	if n <= 1 {
		return 0
	}
	k := mbits.Len64(n - 1)
	if k > 58 {
		return c.bits(label, 64) % n
	}
	return c.bits(label, k+5) % n
}

// Int draws a uniform integer in [lo,hi].
func (c *Ctx) Int(label string, lo, hi int) int {
	c.mustGen()
	if hi <= lo {
		return lo
	}
	return lo + int(c.below(label, uint64(hi-lo)+1))
}

func (c *Ctx) Int64(label string, lo, hi int64) int64 {
	c.mustGen()
	if hi <= lo {
		return lo
	}
	return lo + int64(c.below(label, uint64(hi-lo)+1))
}

func (c *Ctx) Uint64(label string) uint64 {
	c.mustGen()
	return c.bits(label, 64)
}

func (c *Ctx) Bool(label string) bool {
	c.mustGen()
	return rapid.Bool().Draw(c.rt, label)
}

// Chance is true with probability permille/1000 (shrinks towards false).
func (c *Ctx) Chance(label string, permille int) bool {
	c.mustGen()
	if permille <= 0 {
		return false
	}
	if permille >= 1000 {
		return true
	}
	return c.below(label, 1000) >= uint64(1000-permille)
}

// Pick draws an index in [0,n).
func (c *Ctx) Pick(label string, n int) int {
	c.mustGen()
	if n <= 1 {
		return 0
	}
	return int(c.below(label, uint64(n)))
}

// PickW draws an index with the given non-negative weights (shrinks towards index 0).
func (c *Ctx) PickW(label string, weights []int) int {
	c.mustGen()
	tot := 0
	for _, w := range weights {
		tot += w
	}
	if tot <= 0 {
		return 0
	}
	x := int(c.below(label, uint64(tot)))
	for i, w := range weights {
		if x < w {
			return i
		}
		x -= w
	}
	return len(weights) - 1
}

// ---- knobs and ops: recorded when generating, read back when replaying ----------------------

// Knob returns a per-run configuration value: drawn by gen in generation mode (and recorded in
// the trace header), read from the trace header when replaying.
func (c *Ctx) Knob(name string, gen func() int64) int64 {
	if c.rt == nil {
		if c.kpos >= len(c.Trace.Knobs) || c.Trace.Knobs[c.kpos].Name != name {
			panic(fmt.Sprintf("sim: replay trace has no knob %q at position %d", name, c.kpos))
		}
		v := c.Trace.Knobs[c.kpos].Value
		c.kpos++
		return v
	}
	v := gen()
	if ov, ok := knobOverride[name]; ok {
		v = ov // debugging aid (VERIF_KNOBS=name=value,...): the generator's draw is still consumed
	}
	c.Trace.Knobs = append(c.Trace.Knobs, Knob{name, v})
	return v
}

// Next returns the next operation: produced by gen (and recorded) in generation mode, read from
// the trace when replaying.  ok=false means the run is over.
func (c *Ctx) Next(gen func() (Op, bool)) (Op, bool) {
	if c.rt == nil {
		if c.pos >= len(c.Trace.Ops) {
			return Op{}, false
		}
		op := c.Trace.Ops[c.pos]
		c.pos++
		return op, true
	}
	op, ok := gen()
	if !ok {
		return Op{}, false
	}
	c.Trace.Ops = append(c.Trace.Ops, op)
	c.pos = len(c.Trace.Ops)
	return op, true
}

// OpIndex is the index of the op currently being executed.
func (c *Ctx) OpIndex() int { return c.pos - 1 }

// ---- oracle interface ---------------------------------------------------------------------

// Violation reports a property violation and never returns: the run is aborted.  If the
// (class, signature) pair is a listed known finding the run is aborted quietly and counted.
func (c *Ctx) Violation(class, signature, format string, args ...interface{}) {
	panic(&violationPanic{&Violation{Class: class, Signature: signature, Message: fmt.Sprintf(format, args...), OpIndex: c.OpIndex()}})
}

// Abort ends the run without verdict (used for runs the generator decides not to continue).
func (c *Ctx) Abort() { panic(abortPanic{}) }

func (c *Ctx) Count(name string, n int64) { c.counters[name] += n }
func (c *Ctx) Probe(name string)          { c.probes[name]++ }
func (c *Ctx) ProbeDecl(names ...string) {
	for _, n := range names {
		if _, ok := c.probes[n]; !ok {
			c.probes[n] = 0
		}
	}
}
func (c *Ctx) SimTime(n int64)    { c.simTime += n }
func (c *Ctx) State(h uint64)     { c.states[h] = struct{}{} }
func (c *Ctx) MarkNontrivial()    { c.nontrivial = true }
func (c *Ctx) Note(s string)      { c.notes = append(c.notes, s) }
func (c *Ctx) Logf(f string, a ...interface{}) {
	if c.rt == nil {
		fmt.Printf("  | "+f+"\n", a...)
	}
}

// ---- statistics ---------------------------------------------------------------------------

type Stats struct {
	Property    string           `json:"property"`
	Worker      int              `json:"worker"`
	Seed        uint64           `json:"seed"`
	Tier        string           `json:"tier"`
	Evaluations int              `json:"evaluations"`
	Nontrivial  []uint64         `json:"nontrivial_hashes"`
	Counters    map[string]int64 `json:"counters"`
	Probes      map[string]int64 `json:"probes"`
	SimTime     int64            `json:"sim_time"`
	States      []uint64         `json:"state_hashes"`
	StatesSat   bool             `json:"states_saturated"`
	NonSat      bool             `json:"nontrivial_saturated"`
	Samples     []Trace          `json:"samples"`
	Known       map[string]int   `json:"known_hits"`
	KnownWhat   map[string]string `json:"known_what"`
	WallS       float64          `json:"wall_s"`
	Failed      bool             `json:"failed"`
	Fail        *Violation       `json:"fail,omitempty"`
	Ops         int64            `json:"ops"`
	RapidSeeds  []uint64         `json:"rapid_seeds"`

	nonSet   map[uint64]struct{}
	stateSet map[uint64]struct{}
}

const stateCap = 200000

func (s *Stats) absorb(c *Ctx) {
	s.Evaluations++
	s.Ops += int64(len(c.Trace.Ops))
	for k, v := range c.counters {
		s.Counters[k] += v
	}
	for k, v := range c.probes {
		s.Probes[k] += v
	}
	s.SimTime += c.simTime
	for h := range c.states {
		if len(s.stateSet) < stateCap {
			s.stateSet[h] = struct{}{}
		} else {
			s.StatesSat = true
		}
	}
	if c.nontrivial {
		h := c.Trace.Hash()
		if _, dup := s.nonSet[h]; !dup && len(s.nonSet) >= stateCap {
			s.NonSat = true
		} else if !dup {
			s.nonSet[h] = struct{}{}
			if len(s.Samples) < 2 && len(c.Trace.Ops) <= 400 {
				tr := *c.Trace
				if len(tr.Ops) > 80 {
					tr.Ops = append(append([]Op{}, tr.Ops[:80]...), Op{K: fmt.Sprintf("... %d more ops", len(tr.Ops)-80)})
				}
				s.Samples = append(s.Samples, tr)
			}
		}
	}
}

func (s *Stats) write(dir string) {
	s.Nontrivial = s.Nontrivial[:0]
	for h := range s.nonSet {
		s.Nontrivial = append(s.Nontrivial, h)
	}
	sort.Slice(s.Nontrivial, func(i, j int) bool { return s.Nontrivial[i] < s.Nontrivial[j] })
	s.States = s.States[:0]
	for h := range s.stateSet {
		s.States = append(s.States, h)
	}
	sort.Slice(s.States, func(i, j int) bool { return s.States[i] < s.States[j] })
	b, _ := json.Marshal(s)
	_ = os.WriteFile(filepath.Join(dir, fmt.Sprintf("stats-w%d.json", s.Worker)), b, 0o644)
}

// ---- known findings -------------------------------------------------------------------------

type Finding struct {
	Property  string `json:"property"`
	Status    string `json:"status"` // "known" | "fixed"
	Class     string `json:"class"`
	Signature string `json:"signature"`
	Commit    string `json:"commit,omitempty"`
	What      string `json:"what"`
}

func loadKnown(path, property string) map[string]Finding {
	out := map[string]Finding{}
	if path == "" {
		return out
	}
	b, err := os.ReadFile(path)
	if err != nil {
		return out
	}
	for _, ln := range strings.Split(string(b), "\n") {
		ln = strings.TrimSpace(ln)
		if ln == "" || strings.HasPrefix(ln, "#") {
			continue
		}
		var f Finding
		if json.Unmarshal([]byte(ln), &f) != nil {
			continue
		}
		if f.Property == property && f.Status == "known" {
			out[f.Class+"|"+f.Signature] = f
		}
	}
	return out
}

// ---- main loop ------------------------------------------------------------------------------

type Spec struct {
	Property string
	Engine   string
	Run      func(c *Ctx)
}

func envInt(name string, def int64) int64 {
	if v := os.Getenv(name); v != "" {
		if n, err := strconv.ParseInt(v, 10, 64); err == nil {
			return n
		}
	}
	return def
}

func newCtx(rt *rapid.T, spec Spec, tier string, tr *Trace, st *Stats) *Ctx {
	return &Ctx{T: curT, rt: rt, Property: spec.Property, Tier: tier, Trace: tr, st: st,
		counters: map[string]int64{}, probes: map[string]int64{}, states: map[uint64]struct{}{}}
}

// runWatchdog: a run that does not come back within VERIF_RUN_TIMEOUT_S seconds of wall-clock time (default
// 300; a run normally takes milliseconds to a few seconds) is a call into the library that never returns
// (an endless loop cannot be unwound): the trace is written with class "hang" and the process ends.  The
// same watchdog runs in replay mode, so the driver's fresh-process replay decides whether it is real.
func runWatchdog(c *Ctx) *time.Timer {
	d := time.Duration(envInt("VERIF_RUN_TIMEOUT_S", 300)) * time.Second
	return time.AfterFunc(d, func() {
		FailHard(c, "hang", "hang/run-exceeded-"+strconv.Itoa(int(d/time.Second))+"s", fmt.Sprintf("the run did not return within %v of wall-clock time: some call into the library never came back (last operation index %d)", d, c.OpIndex()))
	})
}

func runOnce(c *Ctx, run func(*Ctx)) (v *Violation) {
	wd := runWatchdog(c)
	defer wd.Stop()
	defer func() {
		if r := recover(); r != nil {
			switch x := r.(type) {
			case *violationPanic:
				v = x.v
			case abortPanic:
				v = nil
			default:
				tn := fmt.Sprintf("%T", r)
				if tn == "rapid.stopTest" || tn == "rapid.invalidData" {
					panic(r)
				}
				stack := string(debug.Stack())
				v = &Violation{Class: "panic", Signature: panicSite(stack), Message: fmt.Sprintf("panic: %v\n%s", r, stack), OpIndex: c.OpIndex()}
			}
		}
	}()
	run(c)
	return nil
}

// panicSite names the innermost /repo frame of a panic (file:function) as its signature.
func panicSite(stack string) string {
	lines := strings.Split(stack, "\n")
	for i, ln := range lines {
		if strings.Contains(ln, "lachesis-base/") && !strings.HasPrefix(strings.TrimSpace(ln), "/") {
			fn := strings.TrimSpace(ln)
			if j := strings.LastIndex(fn, "("); j > 0 {
				fn = fn[:j]
			}
			_ = i
			return fn
		}
	}
	return "unknown-site"
}

var knobOverride = func() map[string]int64 {
	m := map[string]int64{}
	for _, kv := range strings.Split(os.Getenv("VERIF_KNOBS"), ",") {
		if i := strings.Index(kv, "="); i > 0 {
			if n, err := strconv.ParseInt(kv[i+1:], 10, 64); err == nil {
				m[kv[:i]] = n
			}
		}
	}
	return m
}()

var curT *testing.T
var target *Violation // violation class being minimised (first unknown one seen in this process)

// Main runs spec either as a replay (VERIF_REPLAY) or as this worker's share of a seeded search.
func Main(t *testing.T, spec Spec) {
	curT = t
	tier := os.Getenv("VERIF_TIER")
	if tier == "" {
		tier = "quick"
	}
	known := loadKnown(os.Getenv("VERIF_KNOWN"), spec.Property)

	if rp := os.Getenv("VERIF_REPLAY"); rp != "" {
		b, err := os.ReadFile(rp)
		if err != nil {
			fmt.Printf("REPLAY-ERROR cannot read %s: %v\n", rp, err)
			os.Exit(2)
		}
		var tr Trace
		if err := json.Unmarshal(b, &tr); err != nil {
			fmt.Printf("REPLAY-ERROR cannot parse %s: %v\n", rp, err)
			os.Exit(2)
		}
		c := newCtx(nil, spec, tier, &tr, nil)
		v := runOnce(c, spec.Run)
		if v == nil {
			fmt.Printf("REPLAY-RESULT none\n")
			return
		}
		b, _ = json.Marshal(v)
		fmt.Printf("REPLAY-RESULT %s\n", b)
		if _, ok := known[v.Class+"|"+v.Signature]; ok {
			fmt.Printf("REPLAY-KNOWN %s|%s\n", v.Class, v.Signature)
		}
		t.Fail()
		return
	}

	out := os.Getenv("VERIF_OUT")
	if out == "" {
		out = os.TempDir()
	}
	worker := int(envInt("VERIF_WORKER", 0))
	base := uint64(envInt("VERIF_SEED", 1))
	budget := time.Duration(envInt("VERIF_BUDGET_S", 20)) * time.Second
	maxRuns := int(envInt("VERIF_MAXRUNS", 0))
	shrink := envInt("VERIF_SHRINK_S", 20)

	st := &Stats{Property: spec.Property, Worker: worker, Seed: base, Tier: tier,
		Counters: map[string]int64{}, Probes: map[string]int64{}, Known: map[string]int{}, KnownWhat: map[string]string{},
		nonSet: map[uint64]struct{}{}, stateSet: map[uint64]struct{}{}}
	start := time.Now()
	defer func() {
		st.WallS = time.Since(start).Seconds()
		st.write(out)
	}()

	_ = flag.Set("rapid.nofailfile", "true")
	_ = flag.Set("rapid.shrinktime", fmt.Sprintf("%ds", shrink))
	batchSize := int(envInt("VERIF_BATCH", 8))
	_ = flag.Set("rapid.checks", strconv.Itoa(batchSize))

	failPath := filepath.Join(out, fmt.Sprintf("fail-w%d.json", worker))
	for batch := 0; ; batch++ {
		if time.Since(start) > budget || (maxRuns > 0 && st.Evaluations >= maxRuns) {
			break
		}
		seed := Mix(base, uint64(worker), uint64(batch))
		if seed == 0 {
			seed = 1
		}
		st.RapidSeeds = append(st.RapidSeeds, seed)
		if len(st.RapidSeeds) > 64 {
			st.RapidSeeds = st.RapidSeeds[len(st.RapidSeeds)-64:]
		}
		_ = flag.Set("rapid.seed", strconv.FormatUint(seed, 10))
		rapid.Check(t, func(rt *rapid.T) {
			if target == nil && (time.Since(start) > budget+5*time.Second) {
				return // over budget: let the batch drain quickly
			}
			tr := &Trace{Property: spec.Property, Engine: spec.Engine, RapidSeed: seed}
			c := newCtx(rt, spec, tier, tr, st)
			v := runOnce(c, spec.Run)
			if target == nil {
				st.absorb(c)
				detLog(c, v)
			}
			if v == nil {
				return
			}
			if f, ok := known[v.Class+"|"+v.Signature]; ok {
				if target == nil {
					st.Known[v.Class+"|"+v.Signature]++
					st.KnownWhat[v.Class+"|"+v.Signature] = f.What
				}
				return
			}
			if target == nil {
				target = v
				// the first failing run as generated, kept beside the minimised trace: if the minimised one does not
				// reproduce in a fresh process (shrinking went on inside a process whose earlier runs may have left
				// state behind, or met an unowned scheduling choice) the driver falls back to this one
				tr.Violation = v
				if fb, err := json.MarshalIndent(tr, "", " "); err == nil {
					_ = os.WriteFile(filepath.Join(out, fmt.Sprintf("first-fail-w%d.json", worker)), fb, 0o644)
				}
			}
			if v.Class != target.Class {
				return // a different failure reached while shrinking: not the one being minimised
			}
			tr.Violation = v
			b, _ := json.MarshalIndent(tr, "", " ")
			_ = os.WriteFile(failPath, b, 0o644)
			st.Failed = true
			st.Fail = v
			rt.Fatalf("VIOLATION-CANDIDATE class=%s signature=%s op=%d: %s", v.Class, v.Signature, v.OpIndex, v.Message)
		})
		if t.Failed() {
			break
		}
	}
}

// Mix is a small stateless 64-bit mixer (splitmix64 finaliser over the combined inputs).
func Mix(a ...uint64) uint64 {
	var x uint64 = 0x9e3779b97f4a7c15
	for _, v := range a {
		x ^= v + 0x9e3779b97f4a7c15 + (x << 6) + (x >> 2)
		x ^= x >> 30
		x *= 0xbf58476d1ce4e5b9
		x ^= x >> 27
		x *= 0x94d049bb133111eb
		x ^= x >> 31
	}
	return x
}

// HashStr hashes strings to 64 bits (state hashes, stable decisions).
func HashStr(parts ...string) uint64 {
	h := fnv.New64a()
	for _, p := range parts {
		h.Write([]byte(p))
		h.Write([]byte{0})
	}
	return h.Sum64()
}

// FailHard records a violation that cannot be shrunk or returned from (e.g. a deadlock that leaves
// goroutines blocked for ever): it writes the trace and the statistics and ends the process.
func FailHard(c *Ctx, class, signature, msg string) {
	v := &Violation{Class: class, Signature: signature, Message: msg, OpIndex: c.OpIndex()}
	out := os.Getenv("VERIF_OUT")
	if out == "" {
		out = os.TempDir()
	}
	if c.rt == nil {
		b, _ := json.Marshal(v)
		fmt.Printf("REPLAY-RESULT %s\n", b)
		os.Exit(1)
	}
	worker := int(envInt("VERIF_WORKER", 0))
	c.Trace.Violation = v
	b, _ := json.MarshalIndent(c.Trace, "", " ")
	_ = os.WriteFile(filepath.Join(out, fmt.Sprintf("fail-w%d.json", worker)), b, 0o644)
	if c.st != nil {
		c.st.Failed, c.st.Fail = true, v
		c.st.absorb(c)
		c.st.write(out)
	}
	fmt.Printf("VIOLATION-CANDIDATE (hard) class=%s signature=%s: %s\n", class, signature, msg)
	os.Exit(1)
}

// detLog appends one canonical line per run (determinism self-test): everything observable about
// the run except wall-clock time.
func detLog(c *Ctx, v *Violation) {
	path := os.Getenv("VERIF_DETLOG")
	if path == "" {
		return
	}
	var ks []string
	for k, n := range c.counters {
		ks = append(ks, fmt.Sprintf("%s=%d", k, n))
	}
	for k, n := range c.probes {
		ks = append(ks, fmt.Sprintf("p:%s=%d", k, n))
	}
	sort.Strings(ks)
	var ss []uint64
	for h := range c.states {
		ss = append(ss, h)
	}
	sort.Slice(ss, func(i, j int) bool { return ss[i] < ss[j] })
	vio := "-"
	if v != nil {
		vio = v.Class + "|" + v.Signature
	}
	f, err := os.OpenFile(path, os.O_APPEND|os.O_CREATE|os.O_WRONLY, 0o644)
	if err != nil {
		return
	}
	fmt.Fprintf(f, "seed=%d trace=%016x ops=%d simtime=%d nontrivial=%v obs=%016x states=%016x violation=%s\n", c.Trace.RapidSeed, c.Trace.Hash(), len(c.Trace.Ops), c.simTime, c.nontrivial,
		HashStr(ks...), HashStr(fmt.Sprint(ss)), vio)
	f.Close()
}
