package cluster

import (
	"fmt"

	"github.com/Fantom-foundation/lachesis-base/hash"
	"github.com/Fantom-foundation/lachesis-base/inter/dag"
	"github.com/Fantom-foundation/lachesis-base/inter/idx"

	"verif/sim"
)

// profile: which oracles are on and how the generator is biased, per property.
type profile struct {
	on        []string
	heavyOK   bool // cheater weight >= 1/3 allowed in some runs
	byz       int  // permille of emits with a manipulated frame claim
	spec      int  // permille of steps that are speculative builds
	storms    bool // build storms (>=256 builds on one instance)
	tinyRoots bool
	restarts  bool
	maxEvents int
	noSeal    bool
	forks     int // 0 none, 1 some runs, 2 most runs
	resets    bool
	deep      int    // permille of runs that are one deep epoch (hundreds of frames)
	deepEv    [2]int // events of a deep run (default 400..1200)
}

var profiles = map[string]profile{
	"C01": {deep: 40, resets: true, on: []string{"agree", "permtwin"}, byz: 30, spec: 10, restarts: true, maxEvents: 140, forks: 3},
	"C02": {deep: 40, resets: true, on: []string{"delivery"}, byz: 20, restarts: true, maxEvents: 140, forks: 1},
	"C03": {resets: true, on: []string{"cheaters"}, heavyOK: true, maxEvents: 120, forks: 2},
	"C04": {deep: 40, on: []string{"frame", "reject"}, byz: 250, spec: 120, storms: true, restarts: true, maxEvents: 90, forks: 1},
	"C05": {resets: true, on: []string{"fc"}, heavyOK: true, restarts: true, maxEvents: 110, forks: 2},
	"C06": {resets: true, on: []string{"clock"}, heavyOK: true, restarts: true, maxEvents: 110, forks: 2},
	"C07": {deep: 40, on: []string{"twin", "reject"}, byz: 250, spec: 150, storms: true, maxEvents: 90, forks: 1},
	"C08": {deep: 100, deepEv: [2]int{110, 240}, on: []string{"restartenum"}, byz: 80, maxEvents: 70, forks: 1},
	"C09": {resets: true, on: []string{"seal", "joiner", "agree"}, byz: 20, restarts: true, maxEvents: 140, forks: 1},
	"C10": {deep: 40, resets: true, on: []string{"ref", "reject"}, byz: 120, spec: 10, restarts: true, maxEvents: 130, forks: 1},
	"C20": {resets: true, on: []string{"qi"}, heavyOK: true, maxEvents: 100, forks: 1, noSeal: false},
	"C33": {resets: true, on: []string{"roots"}, tinyRoots: true, byz: 30, restarts: true, maxEvents: 110, forks: 1},
}

func (cl *Cluster) drawKnobs(p profile) {
	c := cl.c
	k := &cl.k
	thorough := c.Tier == "thorough"
	K := func(name string, gen func() int64) int { return int(c.Knob(name, gen)) }
	ri := func(label string, lo, hi int) func() int64 {
		return func() int64 { return int64(c.Int(label, lo, hi)) }
	}
	maxVal := 7
	if thorough {
		maxVal = 10
	}
	k.deepLagNode = -1
	if p.deep > 0 {
		k.deep = K("deep_epoch", func() int64 {
			if c.Chance("deep_epoch", p.deep) {
				return 1
			}
			return 0
		}) == 1
	}
	if k.deep {
		cl.drawDeepKnobs(p)
		return
	}
	k.nVal = K("validators", func() int64 {
		w := []int{1, 2, 3, 5, 5, 4, 3, 2, 1, 1}[:maxVal]
		return int64(1 + c.PickW("validators", w))
	})
	k.weightMode = K("weight_mode", ri("weight_mode", 0, 6))
	k.weights = make([]uint64, k.nVal)
	for i := 0; i < k.nVal; i++ {
		i := i
		k.weights[i] = uint64(c.Knob(fmt.Sprintf("w%d", i), func() int64 {
			n := int64(k.nVal)
			switch k.weightMode {
			case 0:
				return 1
			case 1:
				return int64(c.Int("w", 1, 5))
			case 2: // first validator just below one third, rest 1... (needs n>=4 to be >1)
				if i == 0 && n >= 4 {
					return (n - 1 - 1) / 2
				}
				return 1
			case 3: // first validator just below two thirds
				if i == 0 && n >= 2 {
					return 2*(n-1) - 1
				}
				return 1
			case 6: // first validator holds just over two thirds: all the others together stay below one third
				if i == 0 && n >= 3 {
					return 2*(n-1) + 1
				}
				return 1
			case 4: // total close to the maximum 2^31-1
				return ((1<<31)-1)/n - int64(c.Int("wbig", 0, 3))
			default:
				return int64(c.Int("w", 1, 40))
			}
		}))
		if k.weights[i] == 0 {
			k.weights[i] = 1
		}
	}
	k.spare = K("spare_validators", ri("spare", 0, 1))
	k.vsetMode = K("vset_mode", ri("vset_mode", 0, 3))
	k.vsetSeed = uint64(c.Knob("vset_seed", func() int64 { return int64(c.Int("vset_seed", 0, 1<<30)) }))
	// cheaters
	k.cheaters = map[uint32]bool{}
	k.heavyByz = p.heavyOK && K("heavy_byzantine", func() int64 {
		if c.Chance("heavy", 300) {
			return 1
		}
		return 0
	}) == 1
	wantCheaters := 0
	switch p.forks {
	case 1:
		wantCheaters = K("cheaters", func() int64 { return int64(c.PickW("cheaters", []int{5, 4, 2})) })
	case 2:
		wantCheaters = K("cheaters", func() int64 { return int64(c.PickW("cheaters", []int{1, 5, 3, 1})) })
	case 3: // in between: a third of the runs without cheaters
		wantCheaters = K("cheaters", func() int64 { return int64(c.PickW("cheaters", []int{4, 5, 3, 1})) })
	}
	var tot, cw uint64
	for _, w := range k.weights {
		tot += w
	}
	if k.weightMode == 6 && k.nVal >= 3 && p.forks > 0 && K("all_light_validators_cheat", func() int64 {
		if c.Chance("all_light_cheat", 500) {
			return 1
		}
		return 0
	}) == 1 {
		// many forkers, little weight: more than a third of the validators by count, less than a third by weight
		wantCheaters = 0
		for id := 2; id <= k.nVal; id++ {
			k.cheaters[uint32(id)] = true
			cw += k.weights[id-1]
		}
	}
	for j := 0; j < wantCheaters; j++ {
		id := uint32(K(fmt.Sprintf("cheater%d", j), func() int64 {
			if c.Chance("cheater_ranks_first", 350) {
				// the validator that comes first in the Atropos order (heaviest, lowest id): its fork roots are the first candidates
				best := 0
				for i, w := range k.weights {
					if w > k.weights[best] {
						best = i
					}
				}
				return int64(best + 1)
			}
			return int64(c.Int("cheater_id", 1, k.nVal))
		}))
		if k.cheaters[id] {
			continue
		}
		w := k.weights[id-1]
		if !k.heavyByz && 3*(cw+w) >= tot {
			continue
		}
		k.cheaters[id] = true
		cw += w
	}
	k.personalities = 0
	if len(k.cheaters) > 0 {
		k.personalities = K("personalities", ri("personalities", 0, 1))
	}
	k.observers = K("observers", ri("observers", 0, 1))
	k.maxParents = K("max_parents", func() int64 {
		if c.Chance("few_parents", 250) {
			return int64(c.Int("max_parents", 1, 3))
		}
		return int64(c.Int("max_parents", 3, k.nVal+1))
	})
	// caches
	rootsChoices := []int{0, 1, 2, 5, 100, 1000}
	if p.tinyRoots {
		rootsChoices = []int{0, 1, 2, 3, 5, 100}
	}
	k.cc.rootsNum = uint(rootsChoices[K("roots_num", ri("roots_num", 0, len(rootsChoices)-1))])
	k.cc.rootsFrames = rootsChoices[K("roots_frames", ri("roots_frames", 0, len(rootsChoices)-1))]
	fcChoices := []int{1, 2, 16, 200, 20000}
	k.cc.fcPairs = fcChoices[K("fc_cache", ri("fc_cache", 0, len(fcChoices)-1))]
	vecChoices := []int{1, 64, 1600, 160 * 1024}
	k.cc.hbSize = uint(vecChoices[K("hb_cache", ri("hb_cache", 0, len(vecChoices)-1))])
	k.cc.laSize = uint(vecChoices[K("la_cache", ri("la_cache", 0, len(vecChoices)-1))])
	// ordering buffer
	bufChoices := []int{0, 1, 3, 1000}
	k.bufNum = bufChoices[K("buffer_events", func() int64 { return int64(c.PickW("buffer_events", []int{1, 1, 2, 6})) })]
	cl.bufLimit = dag.Metric{Num: idx.Event(k.bufNum), Size: uint64(k.bufNum) * 4096}
	// epochs
	k.sealFrame, k.maxEpochs = 0, 1
	if !p.noSeal {
		k.sealFrame = K("seal_frame", func() int64 {
			if c.Chance("seals", 650) {
				return int64([]int{1, 2, 3, 4, 6, 9, 12}[c.PickW("seal_frame", []int{2, 3, 3, 2, 2, 1, 1})])
			}
			return 0
		})
		k.maxEpochs = K("max_epochs", func() int64 { return int64(1 + c.PickW("max_epochs", []int{1, 3, 3, 2})) })
	}
	// size and fault rates (swarm: per-run)
	maxEv := p.maxEvents
	if thorough {
		maxEv = maxEv * 5 / 2
	}
	k.events = K("events", func() int64 {
		per := []int{3, 6, 12, 20, 30}[c.PickW("events_per_validator", []int{1, 2, 4, 4, 2})]
		base := per * (k.nVal + 1) * maxEv / 100
		if base < 6 {
			base = 6
		}
		return int64(base - c.Int("events_jitter", 0, base/5))
	})
	k.dropPm = K("drop_permille", func() int64 { return int64(c.PickW("drop", []int{4, 2, 2, 1})) * 100 })
	k.dupPm = K("dup_permille", func() int64 { return int64(c.PickW("dup", []int{4, 2, 1})) * 100 })
	k.fifoPm = K("fifo_permille", func() int64 { return int64(c.PickW("fifo", []int{2, 2, 2, 1})) * 300 })
	k.partitionPm = K("partition_permille", func() int64 { return int64(c.PickW("partition", []int{4, 2, 1})) * 4 })
	k.stallPm = K("stall_permille", func() int64 { return int64(c.PickW("stall", []int{3, 2, 1})) * 5 })
	k.activity = make([]int, k.nVal+k.spare)
	for i := range k.activity {
		k.activity[i] = K(fmt.Sprintf("activity%d", i), func() int64 { return int64([]int{1, 2, 4, 8}[c.PickW("activity", []int{1, 1, 12, 1})]) })
	}
	k.restartPm = 0
	if p.restarts {
		k.restartPm = K("restart_permille", func() int64 { return int64(c.PickW("restart", []int{5, 2, 1})) * 12 })
	}
	k.byzPm = 0
	if p.byz > 0 {
		k.byzPm = K("byzantine_frame_permille", func() int64 { return int64(c.PickW("byz", []int{2, 3, 2})) * int64(p.byz) / 2 })
	}
	k.specPm = 0
	if p.spec > 0 {
		k.specPm = K("speculative_build_permille", func() int64 { return int64(c.PickW("spec", []int{2, 3, 2})) * int64(p.spec) / 2 })
	}
	k.syncPm = K("sync_permille", func() int64 { return int64(1+c.PickW("sync", []int{3, 3, 1})) * 25 })
	k.forkPm = K("fork_permille", func() int64 { return int64(c.PickW("fork", []int{1, 3, 2})) * 80 })
	k.oldParentPm = K("old_parent_permille", func() int64 { return int64(c.PickW("oldp", []int{3, 2, 1})) * 100 })
}

// drawDeepKnobs configures a run that stays in one epoch for hundreds of frames: 2..4 validators,
// a quick network, no seals.  With 4 equal validators one of them may fall silent while the other
// three advance more than 100 frames, and then comes back (frame claims far above the self-parent's).
func (cl *Cluster) drawDeepKnobs(p profile) {
	c := cl.c
	k := &cl.k
	K := func(name string, gen func() int64) int { return int(c.Knob(name, gen)) }
	ri := func(label string, lo, hi int) func() int64 {
		return func() int64 { return int64(c.Int(label, lo, hi)) }
	}
	k.nVal = K("validators", func() int64 { return int64(2 + c.PickW("deep_validators", []int{3, 2, 4})) })
	k.weightMode = 0
	k.weights = make([]uint64, k.nVal)
	for i := range k.weights {
		k.weights[i] = uint64(K(fmt.Sprintf("w%d", i), func() int64 { return 1 }))
	}
	k.cheaters = map[uint32]bool{}
	k.maxParents = K("max_parents", func() int64 { return int64(k.nVal + 1 - c.PickW("deep_fewer_parents", []int{6, 1})) })
	if k.maxParents < 2 {
		k.maxParents = 2
	}
	rootsChoices := []int{0, 1, 2, 5, 100, 1000}
	k.cc.rootsNum = uint(rootsChoices[K("roots_num", ri("roots_num", 0, len(rootsChoices)-1))])
	k.cc.rootsFrames = rootsChoices[K("roots_frames", ri("roots_frames", 0, len(rootsChoices)-1))]
	fcChoices := []int{1, 2, 16, 200, 20000}
	k.cc.fcPairs = fcChoices[K("fc_cache", ri("fc_cache", 0, len(fcChoices)-1))]
	vecChoices := []int{1, 64, 1600, 160 * 1024}
	k.cc.hbSize = uint(vecChoices[K("hb_cache", ri("hb_cache", 0, len(vecChoices)-1))])
	k.cc.laSize = uint(vecChoices[K("la_cache", ri("la_cache", 0, len(vecChoices)-1))])
	k.bufNum = 1000
	cl.bufLimit = dag.Metric{Num: idx.Event(k.bufNum), Size: uint64(k.bufNum) * 4096}
	k.sealFrame, k.maxEpochs = 0, 1
	lo, hi := 400, 1200
	if p.deepEv[1] > 0 {
		lo, hi = p.deepEv[0], p.deepEv[1]
	}
	k.events = K("events", func() int64 {
		if k.nVal == 2 && hi > 900 {
			return int64(c.Int("deep_events", lo, 900)) // two validators: a frame per round, beyond 256 decided frames
		}
		return int64(c.Int("deep_events", lo, hi))
	})
	if k.nVal == 4 {
		k.deepLagNode = K("deep_laggard", ri("deep_laggard", -1, 3))
		if k.deepLagNode >= 0 {
			k.deepLagFrom = K("deep_laggard_from", ri("deep_laggard_from", 4, 40))
			k.deepLagTo = K("deep_laggard_to", func() int64 {
				tail := 150
				if k.events/3 < tail {
					tail = k.events / 3
				}
				return int64(k.events - c.Int("deep_laggard_tail", 10, tail))
			})
		}
	}
	k.dropPm = K("drop_permille", func() int64 { return int64(c.PickW("drop", []int{4, 1})) * 50 })
	k.dupPm = K("dup_permille", func() int64 { return int64(c.PickW("dup", []int{4, 1})) * 50 })
	k.fifoPm = 900
	k.activity = make([]int, k.nVal)
	for i := range k.activity {
		k.activity[i] = 4
	}
	if p.restarts {
		k.restartPm = K("restart_permille", func() int64 { return int64(c.PickW("restart", []int{5, 2})) * 6 })
	}
	if p.byz > 0 {
		k.byzPm = K("byzantine_frame_permille", func() int64 { return int64(c.PickW("byz", []int{2, 3})) * int64(p.byz) / 4 })
	}
	k.syncPm = 25
	if p.spec > 0 {
		k.specPm = K("speculative_build_permille", func() int64 { return int64(c.PickW("spec", []int{2, 3})) * int64(p.spec) / 4 })
	}
	c.Probe("deep_epoch_run")
}

// Run is one simulated cluster run for property prop.
func Run(c *sim.Ctx, prop string) {
	p := profiles[prop]
	cl := &Cluster{c: c, prop: prop, on: map[string]bool{}, epochs: map[uint32]*EpochRef{}, byID: map[hash.Event]*PEvent{}, canon: map[string]*BlockRec{}}
	for _, o := range p.on {
		cl.on[o] = true
	}
	cl.ext = newExtras(cl)
	c.ProbeDecl("event_frame_gt1", "run_with_forks", "run_with_epoch_change", "one_event_decided_2_or_more_frames", "one_event_decided_3_or_more_frames")
	if p.deep > 0 {
		c.ProbeDecl("deep_epoch_run")
		if p.spec > 0 {
			c.ProbeDecl("long_walk_build_discarded")
		}
		if p.deepEv[1] == 0 {
			c.ProbeDecl("build_capped_100_frames_above_self_parent", "valid_claim_more_than_100_frames_above_self_parent", "block_of_frame_256_or_higher")
		}
	}
	cl.drawKnobs(p)
	k := &cl.k
	// nodes: one per possible validator id, then second personalities of cheaters, then observers
	for i := 0; i < k.nVal+k.spare; i++ {
		cl.addNode(uint32(i+1), fmt.Sprintf("n%d(v%d)", i, i+1))
	}
	if k.personalities > 0 {
		for _, id := range sortedU32(k.cheaters) {
			cl.addNode(id, fmt.Sprintf("n%d(v%d')", len(cl.nodes), id))
		}
	}
	for i := 0; i < k.observers; i++ {
		cl.addNode(0, fmt.Sprintf("n%d(obs)", len(cl.nodes)))
	}
	cl.partition = make([]int, len(cl.nodes))
	g := &gen{cl: cl, p: p, stallLeft: make([]int, len(cl.nodes))}
	for {
		op, ok := c.Next(g.next)
		if !ok {
			break
		}
		cl.exec(op)
		c.SimTime(1)
	}
}

func sortedU32(m map[uint32]bool) []uint32 {
	var r []uint32
	for k := range m {
		r = append(r, k)
	}
	for i := range r {
		for j := i + 1; j < len(r); j++ {
			if r[j] < r[i] {
				r[i], r[j] = r[j], r[i]
			}
		}
	}
	return r
}

// exec interprets one trace op.  It tolerates references that make no sense in the current
// state (they are skipped) so that minimised traces stay executable.
func (cl *Cluster) exec(op sim.Op) {
	node := func(i int64) *Node {
		if i < 0 || int(i) >= len(cl.nodes) {
			return nil
		}
		return cl.nodes[i]
	}
	ints := func(a []int64) []int {
		r := make([]int, len(a))
		for i, x := range a {
			r[i] = int(x)
		}
		return r
	}
	switch op.K {
	case "emit": // node kind delta sp others...
		if n := node(op.A[0]); n != nil && len(op.A) >= 4 {
			cl.emit(n, int(op.A[1]), int(op.A[2]), int(op.A[3]), ints(op.A[4:]))
		}
	case "deliver": // node G
		if n := node(op.A[0]); n != nil && op.A[1] >= 0 && int(op.A[1]) < len(cl.pool) {
			cl.c.Count("deliveries", 1)
			cl.push(n, cl.pool[op.A[1]], "net")
		}
	case "spec": // node count sp others...
		if n := node(op.A[0]); n != nil && len(op.A) >= 3 {
			cl.specBuild(n, int(op.A[1]), int(op.A[2]), ints(op.A[3:]))
		}
	case "restart":
		if n := node(op.A[0]); n != nil {
			cl.restart(n)
		}
	case "sync": // n from m
		n, m := node(op.A[0]), node(op.A[1])
		if n != nil && m != nil && n != m {
			cl.c.Count("syncs", 1)
			cl.syncFrom(n, m)
		}
	case "reset": // node n jumps to the epoch of node m
		n, m := node(op.A[0]), node(op.A[1])
		if n != nil && m != nil {
			cl.resetTo(n, m)
		}
	case "syncall":
		for _, n := range cl.nodes {
			for _, m := range cl.nodes {
				if n != m {
					cl.syncFrom(n, m)
				}
			}
		}
	case "quiesce":
		cl.quiesce()
	case "note": // generator-side faults that need no execution (drops, partitions) are only counted
		if len(op.S) > 0 {
			cl.c.Count(op.S[0], 1)
		}
	}
}

// ---- generator ---------------------------------------------------------------------------------

type gen struct {
	stormLeft int
	stormNode int
	partLeft  int
	stallLeft []int
	cl        *Cluster
	p         profile
	steps     int
	phase     int // 0 main, 1 syncing, 2 quiesce issued, 3 done
	rounds    int
	lastSnap  string
	storms    int
	lagClaims int
	lagSpecs  int
}

func (g *gen) snapshot() string {
	s := ""
	for _, n := range g.cl.nodes {
		s += fmt.Sprintf("%d:%d:%d:%d|", n.id, n.epoch0(), len(n.has), len(n.blocks))
	}
	return s
}

func (n *Node) epoch0() uint32 {
	if n.stopped {
		return 0
	}
	return n.epoch()
}

func (g *gen) next() (sim.Op, bool) {
	cl, c := g.cl, g.cl.c
	k := &cl.k
	g.steps++
	switch g.phase {
	case 0:
		if cl.emitted >= k.events || g.steps > 60*k.events+200 {
			g.phase = 1
			for i := range cl.partition {
				cl.partition[i] = 0
			}
			g.lastSnap = g.snapshot()
			return sim.Op{K: "syncall"}, true
		}
	case 1:
		s := g.snapshot()
		g.rounds++
		if s == g.lastSnap || g.rounds >= len(cl.nodes)*2+4 {
			g.phase = 2
			return sim.Op{K: "quiesce"}, true
		}
		g.lastSnap = s
		return sim.Op{K: "syncall"}, true
	default:
		return sim.Op{}, false
	}

	if g.stormLeft > 0 {
		g.stormLeft--
		if op, ok := g.genEmitFor(true, cl.nodes[g.stormNode]); ok {
			return op, true
		}
		g.stormLeft = 0
	}
	if g.p.storms && !k.deep && g.storms < 2 && c.Chance("storm", 8) {
		// a storm: hundreds of speculative builds of varying candidates on one instance, optionally right after a restart
		var elig []int
		for _, n := range cl.nodes {
			if !n.stopped && n.val != 0 && cl.epochRef(n.epoch()).RV.Pos(n.val) >= 0 {
				elig = append(elig, n.id)
			}
		}
		if len(elig) > 0 {
			g.storms++
			g.stormNode = elig[c.Pick("storm_node", len(elig))]
			g.stormLeft = c.Int("storm_size", 250, 600)
			c.Count("build_storms", 1)
			if c.Bool("storm_after_restart") {
				return sim.Op{K: "restart", A: []int64{int64(g.stormNode)}}, true
			}
		}
	}
	// partitions and stalls are episodes of bounded length (generator state only)
	if g.partLeft > 0 {
		g.partLeft--
		if g.partLeft == 0 {
			for i := range cl.partition {
				cl.partition[i] = 0
			}
			return sim.Op{K: "note", S: []string{"heals"}}, true
		}
	} else if k.partitionPm > 0 && len(cl.nodes) > 1 && c.Chance("partition_start", k.partitionPm) {
		for i := range cl.partition {
			if c.Bool("side") {
				cl.partition[i] = 1
			}
		}
		g.partLeft = c.Int("partition_steps", 10, 80)
		return sim.Op{K: "note", S: []string{"partitions"}}, true
	}
	for i := range g.stallLeft {
		if g.stallLeft[i] > 0 {
			g.stallLeft[i]--
		}
	}
	if k.deepLagNode >= 0 && cl.emitted >= k.deepLagFrom && cl.emitted < k.deepLagTo {
		g.stallLeft[k.deepLagNode] = 2 // silent: neither emits nor receives
	}
	if k.stallPm > 0 && len(cl.nodes) > 1 && c.Chance("stall_start", k.stallPm) {
		i := c.Pick("stall_node", len(cl.nodes))
		g.stallLeft[i] = c.Int("stall_steps", 10, 120)
		return sim.Op{K: "note", S: []string{"stalls"}}, true
	}

	deliverable := g.deliverable()
	wEmit := 6
	wDeliver := 3 * len(deliverable)
	if wDeliver > 90 {
		wDeliver = 90
	}
	if k.deep {
		wDeliver = 60 * len(deliverable) // a quick network: views are fresh, frames advance every round
	}
	wSpec := k.specPm / 10
	wRestart := 0
	if k.restartPm > 0 {
		wRestart = 1
	}
	wSync := k.syncPm/25 + k.dropPm/60
	if k.bufNum < 1000 {
		wSync += 4
	}
	wReset := 0
	lagN, lagM := g.laggard()
	if g.p.resets && lagN >= 0 {
		wReset = 2
	}
	choice := c.PickW("action", []int{wEmit, wDeliver, wSync, wSpec, wRestart, wReset})
	switch choice {
	case 0:
		if op, ok := g.genEmit(false); ok {
			return op, true
		}
		return sim.Op{K: "note", S: []string{"idle_steps"}}, true
	case 1:
		i := 0
		if !c.Chance("fifo", k.fifoPm) {
			i = c.Pick("msg", len(deliverable))
		}
		mi := deliverable[i]
		m := cl.inflight[mi]
		if !c.Chance("duplicate", k.dupPm) {
			cl.inflight = append(cl.inflight[:mi], cl.inflight[mi+1:]...)
		} else {
			c.Count("duplicates", 1)
		}
		return sim.Op{K: "deliver", A: []int64{int64(m.to), int64(m.g)}}, true
	case 2:
		n := c.Pick("sync_to", len(cl.nodes))
		m := c.Pick("sync_from", len(cl.nodes))
		if cl.partition[n] != cl.partition[m] || n == m || g.stallLeft[n] > 0 {
			return sim.Op{K: "note", S: []string{"idle_steps"}}, true
		}
		return sim.Op{K: "sync", A: []int64{int64(n), int64(m)}}, true
	case 3:
		if op, ok := g.genEmit(true); ok {
			return op, true
		}
		return sim.Op{K: "note", S: []string{"idle_steps"}}, true
	case 5:
		return sim.Op{K: "reset", A: []int64{int64(lagN), int64(lagM)}}, true
	default:
		if c.Chance("restart", k.restartPm*10) {
			n := c.Pick("restart_node", len(cl.nodes))
			return sim.Op{K: "restart", A: []int64{int64(n)}}, true
		}
		return sim.Op{K: "note", S: []string{"idle_steps"}}, true
	}
}

// laggard finds a node that is at least one epoch behind another one.
func (g *gen) laggard() (int, int) {
	cl := g.cl
	for _, n := range cl.nodes {
		if n.stopped || g.stallLeft[n.id] > 0 {
			continue
		}
		for _, m := range cl.nodes {
			if !m.stopped && m.epoch() > n.epoch() && cl.partition[n.id] == cl.partition[m.id] {
				return n.id, m.id
			}
		}
	}
	return -1, -1
}

func (g *gen) deliverable() []int {
	cl := g.cl
	var r []int
	for i, m := range cl.inflight {
		from := cl.pool[m.g].By
		if cl.partition[m.to] == cl.partition[from] && g.stallLeft[m.to] == 0 {
			r = append(r, i)
		}
	}
	return r
}

// genEmit draws an emit (or speculative build) op for some eligible node.
func (g *gen) genEmit(spec bool) (sim.Op, bool) {
	return g.genEmitFor(spec, nil)
}

func (g *gen) genEmitFor(spec bool, forced *Node) (sim.Op, bool) {
	cl, c := g.cl, g.cl.c
	k := &cl.k
	var elig []*Node
	var ew []int
	for _, n := range cl.nodes {
		if n.stopped || n.val == 0 || g.stallLeft[n.id] > 0 {
			continue
		}
		if cl.epochRef(n.epoch()).RV.Pos(n.val) >= 0 {
			elig = append(elig, n)
			ew = append(ew, k.activity[n.val-1])
		}
	}
	if len(elig) == 0 {
		return sim.Op{}, false
	}
	n := elig[c.PickW("emitter", ew)]
	if k.deep && forced == nil && c.Chance("deep_round_robin", 850) {
		// the validator whose last own event is the oldest goes next: close to one frame per round
		for _, e := range elig {
			if e.lastOwn < n.lastOwn {
				n = e
			}
		}
	}
	if forced != nil {
		if forced.stopped || cl.epochRef(forced.epoch()).RV.Pos(forced.val) < 0 {
			return sim.Op{}, false
		}
		n = forced
	}
	epoch := n.epoch()
	// events of the current epoch known to n, per creator, in processing order
	per := map[uint32][]int{}
	var creators []uint32
	for _, gi := range n.order[epoch] {
		cr := uint32(cl.pool[gi].Ev.Creator())
		if _, ok := per[cr]; !ok {
			creators = append(creators, cr)
		}
		per[cr] = append(per[cr], gi)
	}
	sp := -1
	own := per[n.val]
	if n.lastOwn >= 0 && cl.pool[n.lastOwn].Epoch == epoch && n.has[n.lastOwn] {
		sp = n.lastOwn
	} else if len(own) > 0 && k.cheaters[n.val] {
		sp = own[len(own)-1]
	}
	if k.cheaters[n.val] && c.Chance("fork", k.forkPm) {
		j := c.Pick("fork_self_parent", len(own)+1)
		if j == len(own) {
			sp = -1
		} else {
			sp = own[j]
		}
	} else if !k.cheaters[n.val] && sp == -1 && len(own) > 0 {
		// an honest validator never starts a second chain: it continues the latest own event it knows
		sp = own[len(own)-1]
	}
	var others []int
	var oc []uint32
	for _, cr := range creators {
		if cr != n.val {
			oc = append(oc, cr)
		}
	}
	want := 0
	if k.maxParents > 1 && len(oc) > 0 {
		mx := min(k.maxParents-1, len(oc)+1)
		if k.deep {
			want = mx - c.PickW("fewer_parents", []int{14, 1, 1})
		} else {
			want = mx - c.PickW("fewer_parents", []int{6, 2, 1, 1})
		}
		if want < 0 {
			want = 0
		}
	}
	for j := 0; j < want && len(oc) > 0; j++ {
		ci := c.Pick("parent_creator", len(oc))
		cr := oc[ci]
		lst := per[cr]
		gi := lst[len(lst)-1]
		if c.Chance("old_parent", k.oldParentPm) {
			gi = lst[c.Pick("old_parent_idx", len(lst))]
		}
		others = append(others, gi)
		if !c.Chance("same_creator_twice", 30) {
			oc = append(oc[:ci], oc[ci+1:]...)
		}
	}
	if !spec && forced == nil && k.deepLagNode == n.id && cl.emitted >= k.deepLagTo && g.lagSpecs < 2 && k.specPm > 0 {
		// the returning validator first builds a candidate on top of what it knows and discards it (a walk over
		// hundreds of vectors); what it publishes afterwards may observe less or more
		g.lagSpecs++
		spec = true
		c.Probe("long_walk_build_discarded")
	}
	a := []int64{int64(n.id)}
	if spec {
		count := 1 + c.Pick("spec_count", 3)
		a = append(a, int64(count), int64(sp))
		for _, o := range others {
			a = append(a, int64(o))
		}
		return sim.Op{K: "spec", A: a}, true
	}
	kind, delta := 0, 0
	if k.deepLagNode == n.id && cl.emitted >= k.deepLagTo && g.lagClaims < 4 && c.Bool("laggard_claims_higher_frame") {
		// the returning validator claims frames above what Build assigns (allowed whenever the quorum conditions hold)
		g.lagClaims++
		kind, delta = 1, 1+c.Pick("laggard_frame_delta", 3)
	} else if k.byzPm > 0 && c.Chance("byzantine_frame", k.byzPm) {
		kind = 1
		delta = []int{-2, -1, 1, 2, 101}[c.PickW("frame_delta", []int{2, 4, 4, 1, 1})]
	}
	a = append(a, int64(kind), int64(delta), int64(sp))
	for _, o := range others {
		a = append(a, int64(o))
	}
	cl.emitted++
	return sim.Op{K: "emit", A: a}, true
}

func min(a, b int) int {
	if a < b {
		return a
	}
	return b
}

// broadcast queues a freshly accepted own event for every other node (generation mode only).
func (cl *Cluster) broadcast(pe *PEvent) {
	if cl.c.Replaying() {
		return
	}
	for _, m := range cl.nodes {
		if m.id == pe.By {
			continue
		}
		if cl.c.Chance("drop", cl.k.dropPm) {
			cl.c.Count("drops", 1)
			continue
		}
		cl.inflight = append(cl.inflight, msg{to: m.id, g: pe.G})
	}
}
