package cluster

import (
	"fmt"
	"os"
	"sort"

	"github.com/Fantom-foundation/lachesis-base/abft"
	"github.com/Fantom-foundation/lachesis-base/inter/idx"

	"verif/ref"
	"verif/sim"
)

// refBlocks: the reference's verdict for what node n must have emitted in epoch e given exactly
// the events it holds.
func (cl *Cluster) refBlocks(n *Node, er *EpochRef) ([]*ref.Block, error) {
	has := cl.hasL(n, er)
	var out []*ref.Block
	for d := uint32(1); ; d++ {
		b, err := er.L.Decide(d, has)
		if err != nil {
			return out, err
		}
		if b == nil {
			return out, nil
		}
		out = append(out, b)
		if er.sealFrame != 0 && d == er.sealFrame {
			return out, nil
		}
	}
}

func (cl *Cluster) afterProcess(n *Node, pe *PEvent, err error, blocksBefore int, epochBefore uint32) {
	c := cl.c
	er := cl.epochRef(pe.Epoch)
	// ---- accept / reject against the reference frame rule ----
	if err != nil && err != abft.ErrWrongFrame {
		c.Violation("process-error", "process-error", "node %s: Process(%s) failed with unexpected error %q", n.name, cl.descEv(pe), err)
	}
	if pe.Valid && err != nil {
		c.Violation("valid-rejected", "valid-rejected", "node %s rejected valid event %s: %v (reference: claimed frame is allowed)", n.name, cl.descEv(pe), err)
	}
	if !pe.Valid && err == nil && cl.on["reject"] {
		lo, hi := er.L.AllowedFrames(pe.L)
		c.Violation("invalid-accepted", "invalid-accepted", "node %s accepted event %s whose claimed frame %d is outside the allowed range %d..%d", n.name, cl.descEv(pe), pe.Ev.Frame(), lo, hi)
	}
	if err != nil {
		cl.ext.afterProcess(n, pe, err)
		return
	}
	if pe.Ev.Frame() > 1 {
		c.Probe("event_frame_gt1")
	}
	if d := len(n.blocks) - blocksBefore; d >= 2 {
		c.Probe("one_event_decided_2_or_more_frames")
		if d >= 3 {
			c.Probe("one_event_decided_3_or_more_frames")
		}
	}

	// ---- exact agreement with the reference implementation (C10) ----
	if cl.on["ref"] && !cl.k.heavyByz {
		want, rerr := cl.refBlocks(n, er)
		if rerr != nil {
			c.Violation("ref-undetermined", "ref-undetermined", "reference rules do not determine an outcome in a run with < 1/3 Byzantine weight: %v", rerr)
		}
		got := n.epochBlocks(pe.Epoch)
		if len(got) != len(want) {
			c.Violation("blocks-vs-reference", "blocks-vs-reference/count", "node %s, epoch %d, after %s: emitted %d blocks, the reference decides %d from the same events\n got: %s\nwant: %s",
				n.name, pe.Epoch, cl.descEv(pe), len(got), len(want), cl.fmtBlocks(got), cl.fmtRef(er, want))
		}
		for i := range got {
			w := want[i]
			if got[i].Frame != w.Frame || got[i].Atropos != er.events[w.Atropos] || !eqU32(got[i].Cheaters, w.Cheaters) {
				c.Violation("blocks-vs-reference", "blocks-vs-reference/content", "node %s, epoch %d block %d differs from the reference\n got: %s\nwant: %s",
					n.name, pe.Epoch, i+1, cl.fmtBlocks(got), cl.fmtRef(er, want))
			}
		}
	}

	sameEpoch := n.epoch() == pe.Epoch // a sealing event drops the epoch's index: nothing left to query
	if cl.on["fc"] && sameEpoch {
		cl.checkFC(n, pe, er)
	}
	if cl.on["clock"] && sameEpoch {
		cl.checkClock(n, pe, er)
	}
	if cl.on["roots"] {
		cl.checkRoots(n, pe, er)
	}
	if cl.on["seal"] && n.epoch() != epochBefore {
		cl.checkSeal(n, epochBefore)
	}
	cl.ext.afterProcess(n, pe, err)

	// state measure
	st := n.inst.store
	c.State(sim.Mix(uint64(n.epoch()), uint64(st.GetLastDecidedFrame()), uint64(len(n.order[n.epoch()])), uint64(len(n.blocks))))
}

func eqU32(a, b []uint32) bool {
	if len(a) != len(b) {
		return false
	}
	for i := range a {
		if a[i] != b[i] {
			return false
		}
	}
	return true
}

func (cl *Cluster) fmtBlocks(bs []*BlockRec) string {
	s := ""
	for _, b := range bs {
		s += fmt.Sprintf("[f%d atropos #%d cheaters %v] ", b.Frame, b.Atropos, b.Cheaters)
	}
	return s
}
func (cl *Cluster) fmtRef(er *EpochRef, bs []*ref.Block) string {
	s := ""
	for _, b := range bs {
		s += fmt.Sprintf("[f%d atropos #%d cheaters %v] ", b.Frame, er.events[b.Atropos], b.Cheaters)
	}
	return s
}

// onBlock runs inside EndBlock.
func (cl *Cluster) onBlock(n *Node, rec *BlockRec) {
	c := cl.c
	er := cl.epochRef(rec.Epoch)
	if rec.Atropos < 0 {
		c.Violation("block-unknown-atropos", "block-unknown-atropos", "node %s: block with an Atropos that is not a known event", n.name)
	}
	at := cl.pool[rec.Atropos]
	if cl.on["cheaters"] {
		// a block handed to the application stays what it was: later blocks do not rewrite the list of an earlier one
		for _, old := range n.blocks {
			if len(old.kept) == 0 || old == rec {
				continue
			}
			same := len(old.kept) == len(old.Cheaters)
			for i := 0; same && i < len(old.kept); i++ {
				same = uint32(old.kept[i]) == old.Cheaters[i]
			}
			if !same {
				c.Violation("cheaters", "cheaters/retained-list-rewritten", "node %s: the cheater list of block epoch %d frame %d read %v when it was delivered; the same slice reads %v after block epoch %d frame %d was delivered", n.name, old.Epoch, old.Frame, old.Cheaters, old.kept, rec.Epoch, rec.Frame)
			}
			c.Probe("retained_cheater_list_rechecked")
		}
	}
	if rec.Frame >= 256 {
		c.Probe("block_of_frame_256_or_higher")
	}
	// ---- C01: same block for (epoch, frame) on every instance ----
	if cl.on["agree"] {
		k := fmt.Sprintf("%d/%d", rec.Epoch, rec.Frame)
		if first, ok := cl.canon[k]; ok {
			if first.key() != rec.key() {
				c.Violation("disagreement", "disagreement", "epoch %d frame %d: node %s emitted %s but another instance emitted %s", rec.Epoch, rec.Frame, n.name, rec.key(), first.key())
			}
		} else {
			cl.canon[k] = rec
		}
	}
	// ---- C02: consecutive frames, exactly the new ancestry, each once ----
	if cl.on["delivery"] {
		prev := n.epochBlocks(rec.Epoch)
		// rec is already appended
		if int(rec.Frame) != len(prev) {
			c.Violation("block-frame-sequence", "block-frame-sequence", "node %s epoch %d: block number %d carries frame %d", n.name, rec.Epoch, len(prev), rec.Frame)
		}
		delivered := map[int]bool{}
		for _, b := range prev[:len(prev)-1] {
			for _, g := range b.Applied {
				delivered[g] = true
			}
		}
		want := map[int]bool{}
		er.D.E[at.L].Anc.Each(func(l int) {
			g := er.events[l]
			if !delivered[g] {
				want[g] = true
			}
		})
		seen := map[int]bool{}
		for _, g := range rec.Applied {
			if g < 0 {
				c.Violation("delivery", "delivery/unknown-event", "node %s: ApplyEvent with unknown event", n.name)
			}
			if seen[g] {
				c.Violation("delivery", "delivery/twice-in-block", "node %s epoch %d frame %d: event #%d handed to the application twice in one block", n.name, rec.Epoch, rec.Frame, g)
			}
			if delivered[g] {
				c.Violation("delivery", "delivery/twice-in-epoch", "node %s epoch %d frame %d: event #%d was already delivered by an earlier block", n.name, rec.Epoch, rec.Frame, g)
			}
			seen[g] = true
			if !want[g] {
				c.Violation("delivery", "delivery/not-ancestor", "node %s epoch %d frame %d: delivered event #%d is not an ancestor-or-self of the Atropos #%d", n.name, rec.Epoch, rec.Frame, g, rec.Atropos)
			}
		}
		for g := range want {
			if !seen[g] {
				c.Violation("delivery", "delivery/missing", "node %s epoch %d frame %d: event #%d is a not yet delivered ancestor of the Atropos #%d but was not handed to the application (delivered %v)", n.name, rec.Epoch, rec.Frame, g, rec.Atropos, rec.Applied)
			}
		}
		for _, g := range rec.Applied {
			for _, p := range cl.parentsG(cl.pool[g]) {
				if !seen[p] && !delivered[p] {
					c.Violation("delivery", "delivery/parent-later", "node %s: event #%d delivered before its parent #%d", n.name, g, p)
				}
			}
		}
		// the Atropos is a root of the block's frame by the reference's registration
		isRoot := false
		for _, r := range er.L.Roots[rec.Frame] {
			if r.Ev == at.L {
				isRoot = true
			}
		}
		if !isRoot {
			c.Violation("atropos-not-root", "atropos-not-root", "node %s epoch %d: Atropos #%d of frame %d is not a root of that frame", n.name, rec.Epoch, rec.Atropos, rec.Frame)
		}
		if len(rec.Applied) > 1 {
			c.Probe("block_with_several_events")
		}
	}
	// ---- C03: cheaters = validators with a fork visible from the Atropos, canonical order ----
	if cl.on["cheaters"] {
		var want []uint32
		for ci, id := range er.RV.IDs {
			if er.D.ForkedBy(at.L, ci) {
				want = append(want, id)
			}
		}
		if !eqU32(want, rec.Cheaters) {
			c.Violation("cheaters", "cheaters", "node %s epoch %d frame %d Atropos #%d: cheater list %v, but the validators with two same-seq events among the Atropos' ancestors are %v (canonical order %v)",
				n.name, rec.Epoch, rec.Frame, rec.Atropos, rec.Cheaters, want, er.RV.IDs)
		}
		if len(want) > 0 {
			c.Probe("block_with_cheaters")
		}
		// a fork exists in the pool but is not visible from this Atropos
		if len(want) < cl.forkersInPool(er) {
			c.Probe("fork_exists_but_not_visible_from_atropos")
		}
	}
}

func (cl *Cluster) forkersInPool(er *EpochRef) int {
	seen := map[[2]uint32]bool{}
	forkers := map[uint32]bool{}
	for _, g := range er.events {
		pe := cl.pool[g]
		if !pe.Valid {
			continue
		}
		k := [2]uint32{uint32(pe.Ev.Creator()), uint32(pe.Ev.Seq())}
		if seen[k] {
			forkers[k[0]] = true
		}
		seen[k] = true
	}
	return len(forkers)
}

// ---- C05 ------------------------------------------------------------------------------------

func (cl *Cluster) fcCompare(n *Node, er *EpochRef, a, b *PEvent, how string) {
	got := n.inst.index.ForklessCause(a.Ev.ID(), b.Ev.ID())
	want := er.D.ForklessCause(a.L, b.L)
	cl.c.Count("fc_queries", 1)
	if want {
		cl.c.Probe("fc_true")
	}
	if got != want {
		cl.c.Violation("forkless-cause", "forkless-cause", "node %s (%s): ForklessCause(A=%s, B=%s) = %v, graph definition says %v (A sees forks by validators mask %b)",
			n.name, how, cl.descEv(a), cl.descEv(b), got, want, er.D.E[a.L].Forked)
	}
}

func (cl *Cluster) checkFC(n *Node, pe *PEvent, er *EpochRef) {
	// the new event against every held root of the last three frames
	maxF := uint32(pe.Ev.Frame())
	for f := maxF; f+3 > maxF && f >= 1; f-- {
		for _, r := range er.L.Roots[f] {
			g := er.events[r.Ev]
			if n.has[g] {
				cl.fcCompare(n, er, pe, cl.pool[g], "new-vs-root")
			}
		}
	}
	ord := n.order[pe.Epoch]
	seed := sim.Mix(uint64(cl.c.OpIndex()), uint64(pe.G), uint64(n.id))
	for i := 0; i < 16; i++ {
		a := cl.pool[ord[sim.Mix(seed, uint64(i), 1)%uint64(len(ord))]]
		b := cl.pool[ord[sim.Mix(seed, uint64(i), 2)%uint64(len(ord))]]
		if i%4 == 3 { // repeat an earlier pair: warm cache
			a = cl.pool[ord[sim.Mix(seed, uint64(i-1), 1)%uint64(len(ord))]]
			b = cl.pool[ord[sim.Mix(seed, uint64(i-1), 2)%uint64(len(ord))]]
		}
		cl.fcCompare(n, er, a, b, "sampled-pair")
	}
}

func (cl *Cluster) checkFCAll(n *Node, e uint32) {
	er := cl.epochRef(e)
	ord := n.order[e]
	if len(ord) > 120 || n.epoch() != e || n.stopped {
		return
	}
	for _, a := range ord {
		for _, b := range ord {
			cl.fcCompare(n, er, cl.pool[a], cl.pool[b], "all-pairs")
		}
	}
	cl.c.Probe("fc_all_pairs_run")
}

// ---- C06 ------------------------------------------------------------------------------------

func (cl *Cluster) clockCompare(n *Node, er *EpochRef, x *PEvent) {
	merged := n.inst.index.GetMergedHighestBefore(x.Ev.ID())
	viaAdapter := n.inst.dagi.GetMergedHighestBefore(x.Ev.ID())
	for ci, id := range er.RV.IDs {
		vi := er.PV.GetIdx(idx.ValidatorID(id))
		wantSeq, wantFork := er.D.HighestSeq(x.L, ci)
		got := merged.Get(vi)
		gotA := viaAdapter.Get(vi)
		cl.c.Count("clock_entries", 1)
		if wantFork {
			cl.c.Probe("clock_fork_entry")
		}
		if got.IsForkDetected() != wantFork || (!wantFork && uint32(got.Seq) != wantSeq) {
			cl.c.Violation("merged-clock", "merged-clock", "node %s: merged clock of %s for validator %d: fork=%v seq=%d, definition: fork=%v seq=%d",
				n.name, cl.descEv(x), id, got.IsForkDetected(), got.Seq, wantFork, wantSeq)
		}
		if gotA.IsForkDetected() != wantFork || (!wantFork && uint32(gotA.Seq()) != wantSeq) {
			cl.c.Violation("merged-clock", "merged-clock/adapter", "node %s: adapter's merged clock of %s for validator %d: fork=%v seq=%d, definition: fork=%v seq=%d",
				n.name, cl.descEv(x), id, gotA.IsForkDetected(), gotA.Seq(), wantFork, wantSeq)
		}
	}
}

func (cl *Cluster) checkClock(n *Node, pe *PEvent, er *EpochRef) {
	cl.clockCompare(n, er, pe)
	ord := n.order[pe.Epoch]
	seed := sim.Mix(uint64(cl.c.OpIndex()), uint64(pe.G), uint64(n.id), 77)
	for i := 0; i < 4; i++ {
		cl.clockCompare(n, er, cl.pool[ord[sim.Mix(seed, uint64(i))%uint64(len(ord))]])
	}
}

// ---- C33 ------------------------------------------------------------------------------------

func (cl *Cluster) rootsCompare(n *Node, er *EpochRef, f uint32, how string) {
	got := n.inst.store.GetFrameRoots(idx.Frame(f))
	cl.c.Count("frame_roots_queries", 1)
	var gs, ws []string
	for _, r := range got {
		g := -1
		if pe, ok := cl.byID[r.ID]; ok {
			g = pe.G
		}
		gs = append(gs, fmt.Sprintf("#%d/f%d/v%d", g, r.Slot.Frame, r.Slot.Validator))
	}
	for _, r := range er.L.Roots[f] {
		g := er.events[r.Ev]
		if n.has[g] {
			ws = append(ws, fmt.Sprintf("#%d/f%d/v%d", g, f, er.D.E[r.Ev].Creator))
		}
	}
	sort.Strings(gs)
	sort.Strings(ws)
	if fmt.Sprint(gs) != fmt.Sprint(ws) {
		cl.c.Violation("frame-roots", "frame-roots", "node %s epoch %d (%s): GetFrameRoots(%d) = %v, registered roots of that frame are %v (cache RootsNum=%d RootsFrames=%d)",
			n.name, er.E, how, f, gs, ws, cl.k.cc.rootsNum, cl.k.cc.rootsFrames)
	}
	if len(ws) > 0 {
		cl.c.Probe("frame_roots_nonempty")
	}
}

func (cl *Cluster) checkRoots(n *Node, pe *PEvent, er *EpochRef) {
	if n.epoch() != pe.Epoch {
		return // sealed by this event: checked by the seal oracle
	}
	f := uint32(pe.Ev.Frame())
	cl.rootsCompare(n, er, f, "frame of new event")
	seed := sim.Mix(uint64(cl.c.OpIndex()), uint64(pe.G), uint64(n.id), 33)
	top := f + 2
	for i := 0; i < 3; i++ {
		cl.rootsCompare(n, er, 1+uint32(sim.Mix(seed, uint64(i))%uint64(top)), "sampled frame")
	}
}

// ---- C09 ------------------------------------------------------------------------------------

func (cl *Cluster) checkSeal(n *Node, epochBefore uint32) {
	c := cl.c
	c.Count("seals", 1)
	st := n.inst.store
	want := cl.epochRef(epochBefore + 1)
	es := st.GetEpochState()
	if uint32(es.Epoch) != epochBefore+1 {
		c.Violation("seal", "seal/epoch", "node %s: after sealing epoch %d the epoch is %d", n.name, epochBefore, es.Epoch)
	}
	if es.Validators.String() != want.PV.String() {
		c.Violation("seal", "seal/validators", "node %s: after sealing epoch %d validators are %s, EndBlock returned %s", n.name, epochBefore, es.Validators, want.PV)
	}
	if st.GetLastDecidedFrame() != 0 {
		c.Violation("seal", "seal/decided-frame", "node %s: new epoch %d starts with last decided frame %d", n.name, es.Epoch, st.GetLastDecidedFrame())
	}
	for f := idx.Frame(1); f <= 6; f++ {
		if r := st.GetFrameRoots(f); len(r) != 0 {
			c.Violation("seal", "seal/roots", "node %s: new epoch %d starts with %d roots in frame %d", n.name, es.Epoch, len(r), f)
		}
	}
	last := n.blocks[len(n.blocks)-1]
	if !last.Sealed || last.Epoch != epochBefore {
		c.Violation("seal", "seal/extra-block", "node %s: epoch changed from %d but the last block is %s", n.name, epochBefore, last.key())
	}
}

// ---- quiescence ------------------------------------------------------------------------------

func (cl *Cluster) quiesce() {
	c := cl.c
	var live []*Node
	for _, n := range cl.nodes {
		if !n.stopped {
			live = append(live, n)
		}
	}
	if len(live) == 0 {
		return
	}
	if cl.on["agree"] || cl.on["ref"] {
		// bounded liveness: after the last fault, anti-entropy must bring every instance to the same state
		a := live[0]
		for _, b := range live[1:] {
			if a.epoch() != b.epoch() {
				c.Violation("quiescence", "quiescence/epoch", "after healing and %d sync rounds node %s is in epoch %d, node %s in epoch %d", len(cl.nodes)*2+4, a.name, a.epoch(), b.name, b.epoch())
			}
			from := a.resetFrom // epochs skipped by a Reset are not comparable
			if b.resetFrom > from {
				from = b.resetFrom
			}
			var ab, bb []*BlockRec
			for _, x := range a.blocks {
				if x.Epoch >= from {
					ab = append(ab, x)
				}
			}
			for _, x := range b.blocks {
				if x.Epoch >= from {
					bb = append(bb, x)
				}
			}
			if len(ab) != len(bb) {
				c.Violation("quiescence", "quiescence/blocks", "after healing: node %s has %d blocks (epochs >= %d), node %s has %d\n%s\n%s", a.name, len(ab), from, b.name, len(bb), cl.fmtBlocks(ab), cl.fmtBlocks(bb))
			}
			for i := range ab {
				if ab[i].key() != bb[i].key() {
					c.Violation("disagreement", "disagreement", "block %d: node %s has %s, node %s has %s", i, a.name, ab[i].key(), b.name, bb[i].key())
				}
			}
		}
	}
	if cl.on["fc"] {
		for _, n := range live {
			cl.checkFCAll(n, n.epoch())
		}
	}
	if cl.on["roots"] {
		for _, n := range live {
			er := cl.epochRef(n.epoch())
			top := uint32(0)
			for f := range er.L.Roots {
				if f > top {
					top = f
				}
			}
			for f := uint32(1); f <= top+1; f++ {
				cl.rootsCompare(n, er, f, "final sweep")
			}
		}
	}
	// non-triviality
	maxBlocks, forks := 0, 0
	for _, n := range live {
		if len(n.blocks) > maxBlocks {
			maxBlocks = len(n.blocks)
		}
	}
	for _, er := range cl.epochs {
		forks += cl.forkersInPool(er)
	}
	if maxBlocks >= 2 {
		c.MarkNontrivial()
	}
	if os.Getenv("VERIF_DEBUG_RUNS") != "" {
		mf, np := uint32(0), 0
		for _, pe := range cl.pool {
			if uint32(pe.Ev.Frame()) > mf {
				mf = uint32(pe.Ev.Frame())
			}
			np += len(pe.Ev.Parents())
		}
		fmt.Printf("RUN vals=%d nodes=%d events=%d emitted=%d pool=%d blocks=%d forks=%d epochs=%d cheaters=%d maxframe=%d avgparents=%.1f maxparents=%d drop=%d wm=%d ops=%d\n", cl.k.nVal, len(cl.nodes), cl.k.events, cl.emitted, len(cl.pool), maxBlocks, forks, len(cl.epochs), len(cl.k.cheaters), mf, float64(np)/float64(len(cl.pool)+1), cl.k.maxParents, cl.k.dropPm, cl.k.weightMode, len(cl.c.Trace.Ops))
	}
	if forks > 0 {
		c.Probe("run_with_forks")
	}
	if maxBlocks >= 2 && forks > 0 {
		c.Probe("run_with_forks_and_2_blocks")
	}
	if len(cl.epochs) > 1 {
		c.Probe("run_with_epoch_change")
	}
	if os.Getenv("VERIF_DEBUG_RUNS") == "2" && cl.k.nVal >= 4 && len(cl.pool) > 100 && maxBlocks == 0 {
		for _, pe := range cl.pool {
			fmt.Printf("  EV %s by node %d lamport %d\n", cl.descEv(pe), pe.By, pe.Ev.Lamport())
		}
		for _, n := range cl.nodes {
			fmt.Printf("  NODE %s has=%d stopped=%v\n", n.name, len(n.has), n.stopped)
		}
		os.Exit(0)
	}
	cl.ext.atQuiescence()
}
