package cluster

import (
	"testing"

	"verif/sim"
)

func runProp(t *testing.T, prop string) {
	sim.Main(t, sim.Spec{Property: prop, Engine: "E1-cluster", Run: func(c *sim.Ctx) { Run(c, prop) }})
}

func TestC01(t *testing.T) { runProp(t, "C01") }
func TestC02(t *testing.T) { runProp(t, "C02") }
func TestC03(t *testing.T) { runProp(t, "C03") }
func TestC04(t *testing.T) { runProp(t, "C04") }
func TestC05(t *testing.T) { runProp(t, "C05") }
func TestC06(t *testing.T) { runProp(t, "C06") }
func TestC07(t *testing.T) { runProp(t, "C07") }
func TestC08(t *testing.T) { runProp(t, "C08") }
func TestC09(t *testing.T) { runProp(t, "C09") }
func TestC10(t *testing.T) { runProp(t, "C10") }
func TestC20(t *testing.T) { runProp(t, "C20") }
func TestC33(t *testing.T) {
	sim.Main(t, sim.Spec{Property: "C33", Engine: "E1-cluster", Run: func(c *sim.Ctx) {
		if c.Knob("mode", func() int64 { return int64(c.PickW("mode", []int{3, 1})) }) == 1 {
			RunRootsDirect(c) // direct drive of abft.Store: thousands of short histories per second
		} else {
			Run(c, "C33")
		}
	}})
}
