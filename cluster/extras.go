package cluster

import (
	"bytes"
	"fmt"
	"sort"

	"github.com/Fantom-foundation/lachesis-base/abft"
	"github.com/Fantom-foundation/lachesis-base/emitter/ancestor"
	"github.com/Fantom-foundation/lachesis-base/hash"
	"github.com/Fantom-foundation/lachesis-base/inter/dag"
	"github.com/Fantom-foundation/lachesis-base/inter/idx"
	"github.com/Fantom-foundation/lachesis-base/inter/pos"
	"github.com/Fantom-foundation/lachesis-base/kvdb"
	"github.com/Fantom-foundation/lachesis-base/kvdb/memorydb"
	"github.com/Fantom-foundation/lachesis-base/lachesis"
	"github.com/Fantom-foundation/lachesis-base/vecfc"

	"verif/ref"

	"verif/sim"
)

// shadow is a bare consensus instance with its own databases, event store and block log, used as
// clean twin (C07), restart subject (C08) and late joiner (C09).
type shadow struct {
	cl     *Cluster
	name   string
	dbs    *nodeDBs
	inst   *Instance
	events map[hash.Event]*PEvent
	blocks []*BlockRec
	crit   error
}

func (s *shadow) HasEvent(h hash.Event) bool { _, ok := s.events[h]; return ok }
func (s *shadow) GetEvent(h hash.Event) dag.Event {
	if pe, ok := s.events[h]; ok {
		return pe.Ev
	}
	return nil
}

func (s *shadow) callbacks() lachesis.ConsensusCallbacks {
	return lachesis.ConsensusCallbacks{BeginBlock: func(b *lachesis.Block) lachesis.BlockCallbacks {
		st := s.inst.store
		epoch := uint32(st.GetEpoch())
		frame := uint32(st.GetLastDecidedFrame()) + 1
		rec := &BlockRec{Epoch: epoch, Frame: frame, Atropos: -1}
		if pe, ok := s.cl.byID[b.Atropos]; ok {
			rec.Atropos = pe.G
		}
		for _, ch := range b.Cheaters {
			rec.Cheaters = append(rec.Cheaters, uint32(ch))
		}
		return lachesis.BlockCallbacks{
			ApplyEvent: func(e dag.Event) {
				if pe, ok := s.cl.byID[e.ID()]; ok {
					rec.Applied = append(rec.Applied, pe.G)
				}
			},
			EndBlock: func() *pos.Validators {
				er := s.cl.epochRef(epoch)
				var next *pos.Validators
				if er.sealFrame != 0 && frame == er.sealFrame {
					rec.Sealed = true
					next = s.cl.epochRef(epoch + 1).PV
				}
				s.blocks = append(s.blocks, rec)
				return next
			},
		}
	}}
}

func (s *shadow) critFn(err error) {
	s.crit = err
	panic(critPanic{err})
}

// guard converts a crit inside a shadow into a violation of the property being checked.
func (s *shadow) guard(what string, f func()) {
	defer func() {
		if r := recover(); r != nil {
			cp, ok := r.(critPanic)
			if !ok {
				panic(r)
			}
			s.cl.c.Violation("crit", "crit:"+critSig(cp.err.Error()), "%s: library reported a critical error during %s: %s", s.name, what, cp.err)
		}
	}()
	f()
}

func (cl *Cluster) newShadow(name string, dbs *nodeDBs, genesis bool) *shadow {
	s := &shadow{cl: cl, name: name, dbs: dbs, events: map[hash.Event]*PEvent{}}
	var g *abft.Genesis
	if genesis {
		g = &abft.Genesis{Epoch: 1, Validators: cl.epochRef(1).PV}
	}
	s.guard("bootstrap", func() { s.inst = newInstance(dbs, cl.k.cc, s.critFn, s, g, s.callbacks()) })
	return s
}

func (s *shadow) process(pe *PEvent) error {
	s.events[pe.Ev.ID()] = pe
	var err error
	s.guard("Process", func() { err = s.inst.lch.Process(pe.Ev) })
	if err != nil {
		delete(s.events, pe.Ev.ID())
	}
	return err
}

func (s *shadow) build(cd *candidate) uint32 {
	me := cd.mutable()
	var err error
	s.guard("Build", func() { err = s.inst.lch.Build(me) })
	if err != nil {
		s.cl.c.Violation("build-error", "build-error", "%s: Build returned %v", s.name, err)
	}
	return uint32(me.Frame())
}

func dumpStore(s kvdb.Store) []byte {
	var b bytes.Buffer
	it := s.NewIterator(nil, nil)
	for it.Next() {
		fmt.Fprintf(&b, "%x=%x\n", it.Key(), it.Value())
	}
	it.Release()
	return b.Bytes()
}

func stateDigest(inst *Instance, dbs *nodeDBs, withDB bool) string {
	st := inst.store
	es := st.GetEpochState()
	s := fmt.Sprintf("epoch=%d vals=%s decided=%d", es.Epoch, es.Validators, st.GetLastDecidedFrame())
	top := st.GetLastDecidedFrame() + 4
	for f := idx.Frame(1); f <= top; f++ {
		var rs []string
		for _, r := range st.GetFrameRoots(f) {
			rs = append(rs, fmt.Sprintf("%x/%d/%d", r.ID[4:12], r.Slot.Frame, r.Slot.Validator))
		}
		sort.Strings(rs)
		s += fmt.Sprintf(" r%d=%v", f, rs)
	}
	if withDB {
		s += fmt.Sprintf(" main=%x", sim.HashStr(string(dumpStore(dbs.main))))
		if e, ok := dbs.epochs[uint32(es.Epoch)]; ok {
			s += fmt.Sprintf(" epochdb=%x", sim.HashStr(string(dumpStore(e))))
		}
	}
	return s
}

// ---- extras: per-property machinery hooked into the cluster run --------------------------------

type qiSet struct {
	epoch uint32
	qi    [3]*ancestor.QuorumIndexer
	// oracle state
	latest map[uint32]int // creator -> last processed event (G)
	self   int            // last processed own event (G), -1
}

type extras struct {
	cl    *Cluster
	twins map[int]*shadow
	qis   map[int]*qiSet
}

func newExtras(cl *Cluster) *extras {
	return &extras{cl: cl, twins: map[int]*shadow{}, qis: map[int]*qiSet{}}
}

func (x *extras) onNewInstance(n *Node) {
	if x.cl.on["twin"] && x.twins[n.id] == nil {
		x.twins[n.id] = x.cl.newShadow("twin-of-"+n.name, newDBs(), true)
	}
	if x.cl.on["qi"] {
		delete(x.qis, n.id) // a restarted node rebuilds its indexer lazily
	}
}
func (x *extras) onBeginBlock(n *Node, rec *BlockRec, b *lachesis.Block) {
	if x.cl.on["delivery"] {
		// the Atropos is among the stored roots of the frame (queried before a seal drops the epoch DB)
		found := false
		for _, r := range n.inst.store.GetFrameRoots(idx.Frame(rec.Frame)) {
			if r.ID == b.Atropos {
				found = true
			}
		}
		if !found {
			x.cl.c.Violation("atropos-not-root", "atropos-not-root/store", "node %s epoch %d: Atropos #%d is not among GetFrameRoots(%d)", n.name, rec.Epoch, rec.Atropos, rec.Frame)
		}
	}
}
func (x *extras) beforeProcess(n *Node, pe *PEvent)                       {}
func (x *extras) onReleased(n *Node, e dag.Event, peer string, err error) {}
func (x *extras) onPush(n *Node, pe *PEvent, peer string)                 {}
func (x *extras) afterPush(n *Node)                                       {}

func (x *extras) afterBuild(n *Node) {}

// twinBuild: the clean twin builds the same candidate; frames must agree (C07).
func (x *extras) twinBuild(cd *candidate, got uint32) {
	if !x.cl.on["twin"] {
		return
	}
	tw := x.twins[cd.node.id]
	for _, p := range cd.parents {
		if !tw.HasEvent(p) {
			return
		}
	}
	want := tw.build(cd)
	x.cl.c.Count("twin_build_comparisons", 1)
	if want != got {
		x.cl.c.Violation("dirty-vs-clean", "dirty-vs-clean/build", "node %s: Build assigned frame %d to %s, its clean twin (same accepted events, no rejected or speculative ones) assigned %d",
			cd.node.name, got, x.cl.descCand(cd), want)
	}
}

func (x *extras) afterProcess(n *Node, pe *PEvent, err error) {
	cl := x.cl
	if cl.on["twin"] {
		tw := x.twins[n.id]
		if pe.Valid {
			terr := tw.process(pe)
			if (terr == nil) != (err == nil) {
				cl.c.Violation("dirty-vs-clean", "dirty-vs-clean/accept", "node %s: Process(%s) = %v, clean twin = %v", n.name, cl.descEv(pe), err, terr)
			}
		} else {
			cl.c.Count("rejected_events_injected", 1)
		}
		// identical observable state and identical persisted bytes
		a := stateDigest(n.inst, n.dbs, true)
		b := stateDigest(tw.inst, tw.dbs, true)
		if a != b {
			cl.c.Violation("dirty-vs-clean", "dirty-vs-clean/state", "node %s after Process(%s)=%v: state differs from the clean twin\n dirty: %s\n clean: %s", n.name, cl.descEv(pe), err, a, b)
		}
		if len(n.blocks) != len(tw.blocks) {
			cl.c.Violation("dirty-vs-clean", "dirty-vs-clean/blocks", "node %s has %d blocks, clean twin %d", n.name, len(n.blocks), len(tw.blocks))
		}
		for i := range n.blocks {
			if n.blocks[i].key() != tw.blocks[i].key() || fmt.Sprint(n.blocks[i].Applied) != fmt.Sprint(tw.blocks[i].Applied) {
				cl.c.Violation("dirty-vs-clean", "dirty-vs-clean/blocks", "node %s block %d = %s %v, clean twin %s %v", n.name, i, n.blocks[i].key(), n.blocks[i].Applied, tw.blocks[i].key(), tw.blocks[i].Applied)
			}
		}
	}
	if cl.on["qi"] && err == nil {
		x.qiProcess(n, pe)
	}
}

// ---- C20 ----------------------------------------------------------------------------------------

var diffFns = [3]ancestor.DiffMetricFn{
	func(median, current, update idx.Event, v idx.Validator) ancestor.Metric {
		if update <= current {
			return 0
		}
		if median < current {
			return 0
		}
		if update > median {
			update = median
		}
		return ancestor.Metric(update - current)
	},
	func(median, current, update idx.Event, v idx.Validator) ancestor.Metric {
		if update > current {
			return ancestor.Metric(1 + uint64(v))
		}
		return 0
	},
	func(median, current, update idx.Event, v idx.Validator) ancestor.Metric {
		return ancestor.Metric(uint64(median)%1000*3 + uint64(current)%1000*5 + uint64(update)%1000*7)
	},
}

const forkSeq = uint32(1<<31 - 2) // "maximal observation" of the property

func (x *extras) qiProcess(n *Node, pe *PEvent) {
	cl := x.cl
	c := cl.c
	if n.epoch() != pe.Epoch {
		delete(x.qis, n.id)
		return
	}
	er := cl.epochRef(pe.Epoch)
	qs := x.qis[n.id]
	if qs == nil || qs.epoch != pe.Epoch {
		// (re)build: feed the whole epoch in processing order, as a restarted emitter would
		qs = &qiSet{epoch: pe.Epoch, latest: map[uint32]int{}, self: -1}
		for i := range qs.qi {
			qs.qi[i] = ancestor.NewQuorumIndexer(er.PV, n.inst.dagi, diffFns[i])
		}
		x.qis[n.id] = qs
		for _, g := range n.order[pe.Epoch] {
			if g != pe.G {
				x.qiFeed(n, qs, cl.pool[g])
			}
		}
	}
	x.qiFeed(n, qs, pe)

	obs := func(g int, ci int) uint32 {
		if g < 0 {
			return 0
		}
		s, fork := er.D.HighestSeq(cl.pool[g].L, ci)
		if fork {
			return forkSeq
		}
		return s
	}
	nv := er.RV.Len()
	med := make([]uint32, nv)
	for ci := 0; ci < nv; ci++ {
		// largest s such that creators holding >= quorum observed validator ci at >= s in their latest processed event
		cands := []uint32{0}
		for _, id := range er.RV.IDs {
			g, ok := qs.latest[id]
			if ok {
				cands = append(cands, obs(g, ci))
			}
		}
		best := uint32(0)
		for _, s := range cands {
			var w uint64
			for cj, id := range er.RV.IDs {
				g, ok := qs.latest[id]
				o := uint32(0)
				if ok {
					o = obs(g, ci)
				}
				if o >= s {
					w += er.RV.W[cj]
				}
			}
			if w >= er.RV.Quorum && s > best {
				best = s
			}
		}
		med[ci] = best
	}
	got := qs.qi[0].GetGlobalMedianSeqs()
	for ci, id := range er.RV.IDs {
		vi := er.PV.GetIdx(idx.ValidatorID(id))
		c.Count("median_entries", 1)
		if med[ci] == forkSeq {
			c.Probe("median_is_fork_marker")
		}
		if med[ci] > 0 && med[ci] != forkSeq {
			c.Probe("median_positive")
		}
		if uint32(got[vi]) != med[ci] {
			c.Violation("quorum-median", "quorum-median", "node %s after %s: median for validator %d is %d, by definition %d (latest events %v)", n.name, cl.descEv(pe), id, got[vi], med[ci], qs.latest)
		}
	}
	// metrics of up to 4 candidate heads
	var heads []int
	for _, id := range er.RV.IDs {
		if g, ok := qs.latest[id]; ok {
			heads = append(heads, g)
		}
	}
	if len(heads) > 4 {
		off := int(sim.Mix(uint64(pe.G), uint64(n.id)) % uint64(len(heads)))
		heads = append(heads[off:], heads[:off]...)[:4]
	}
	for fi := range qs.qi {
		for _, h := range heads {
			var want ancestor.Metric
			for ci, id := range er.RV.IDs {
				vi := er.PV.GetIdx(idx.ValidatorID(id))
				want += diffFns[fi](idx.Event(med[ci]), idx.Event(obs(qs.self, ci)), idx.Event(obs(h, ci)), vi)
			}
			gotm := qs.qi[fi].GetMetricOf(cl.pool[h].Ev.ID())
			c.Count("metric_comparisons", 1)
			if gotm != want {
				c.Violation("quorum-metric", "quorum-metric", "node %s after %s: metric #%d of candidate #%d is %d, by definition %d", n.name, cl.descEv(pe), fi, h, gotm, want)
			}
		}
	}
}

func (x *extras) qiFeed(n *Node, qs *qiSet, pe *PEvent) {
	self := pe.By == n.id
	for i := range qs.qi {
		qs.qi[i].ProcessEvent(pe.Ev, self)
	}
	qs.latest[uint32(pe.Ev.Creator())] = pe.G
	if self {
		qs.self = pe.G
	}
}

// ---- quiescence-time machinery: joiners (C09) and restart enumeration (C08) ----------------------

func (x *extras) atQuiescence() {
	cl := x.cl
	if cl.on["joiner"] {
		x.joiners()
	}
	if cl.on["restartenum"] {
		x.restartEnum()
	}
	if cl.on["permtwin"] {
		x.permutationTwin()
	}
	if cl.on["fc"] || cl.on["clock"] {
		x.indexReuse()
	}
}

// indexReuse drives one vecfc.Index object directly through two lives: the current epoch's events
// indexed in a fresh parents-first order (with rolled-back additions in between), then Reset to a
// re-weighted validator set over an empty database and the same events indexed again in another
// order.  Every sampled answer must match the graph definition for the weights in force.
func (x *extras) indexReuse() {
	cl := x.cl
	c := cl.c
	src := cl.firstLive()
	if src == nil {
		return
	}
	e := src.epoch()
	ord := src.order[e]
	if len(ord) < 2 || len(ord) > 150 {
		return
	}
	er := cl.epochRef(e)
	seed := sim.Mix(uint64(len(ord)), uint64(ord[len(ord)-1]), cl.k.vsetSeed)
	evs := map[hash.Event]*PEvent{}
	for _, g := range ord {
		evs[cl.pool[g].Ev.ID()] = cl.pool[g]
	}
	getEvent := func(h hash.Event) dag.Event {
		if pe, ok := evs[h]; ok {
			return pe.Ev
		}
		return nil
	}
	var crit error
	index := vecfc.NewIndex(func(err error) { crit = err; panic(critPanic{err}) }, vecfc.IndexConfig{Caches: vecfc.IndexCacheConfig{
		ForklessCausePairs: cl.k.cc.fcPairs, HighestBeforeSeqSize: cl.k.cc.hbSize, LowestAfterSeqSize: cl.k.cc.laSize}})
	_ = crit
	life := func(life int, rv *ref.Validators, pv *pos.Validators, d *ref.DAG, lmap map[int]int, ord []int) {
		defer func() {
			if r := recover(); r != nil {
				if cp, ok := r.(critPanic); ok {
					c.Violation("crit", "crit:"+critSig(cp.err.Error()), "direct index drive (life %d): %v", life, cp.err)
				}
				panic(r)
			}
		}()
		index.Reset(pv, memorydb.New(), getEvent)
		// parents-first permutation chosen by hash
		done := map[int]bool{}
		var order []int
		for len(order) < len(ord) {
			var ready []int
			for _, g := range ord {
				if done[g] {
					continue
				}
				ok := true
				for _, p := range cl.parentsG(cl.pool[g]) {
					if !done[p] {
						ok = false
					}
				}
				if ok {
					ready = append(ready, g)
				}
			}
			g := ready[sim.Mix(seed, uint64(life), uint64(len(order)))%uint64(len(ready))]
			done[g] = true
			order = append(order, g)
		}
		for i, g := range order {
			pe := cl.pool[g]
			if life <= 2 && sim.Mix(seed, uint64(life), uint64(i), 5)%4 == 0 {
				// an addition that is rolled back must leave no trace (lives 3-5 do without: a rollback empties the
				// caches, and those lives are about what the caches still hold from the previous history)
				if err := index.Add(pe.Ev); err != nil {
					c.Violation("index-add-error", "index-add-error", "direct index drive: Add(%s) = %v", cl.descEv(pe), err)
				}
				index.DropNotFlushed()
				c.Count("index_rollbacks", 1)
			}
			if err := index.Add(pe.Ev); err != nil {
				c.Violation("index-add-error", "index-add-error", "direct index drive: Add(%s) = %v", cl.descEv(pe), err)
			}
			index.Flush()
			// queries interleaved with indexing
			for q := 0; q < 6; q++ {
				a := cl.pool[order[sim.Mix(seed, uint64(i), uint64(q), 1)%uint64(i+1)]]
				b := cl.pool[order[sim.Mix(seed, uint64(i), uint64(q), 2)%uint64(i+1)]]
				if cl.on["fc"] {
					got := index.ForklessCause(a.Ev.ID(), b.Ev.ID())
					want := d.ForklessCause(lmap[a.L], lmap[b.L])
					c.Count("fc_queries", 1)
					if got != want {
						c.Violation("forkless-cause", "forkless-cause/direct-index", "direct index drive, life %d (weights %v): ForklessCause(A=%s, B=%s) = %v, graph definition says %v",
							life, rv.W, cl.descEv(a), cl.descEv(b), got, want)
					}
				}
				if cl.on["clock"] {
					m := index.GetMergedHighestBefore(a.Ev.ID())
					for ci, id := range rv.IDs {
						ws, wf := d.HighestSeq(lmap[a.L], ci)
						gv := m.Get(pv.GetIdx(idx.ValidatorID(id)))
						if gv.IsForkDetected() != wf || (!wf && uint32(gv.Seq) != ws) {
							c.Violation("merged-clock", "merged-clock/direct-index", "direct index drive, life %d: merged clock of %s for validator %d: fork=%v seq=%d, definition fork=%v seq=%d", life, cl.descEv(a), id, gv.IsForkDetected(), gv.Seq, wf, ws)
						}
					}
				}
			}
		}
		if life >= 3 && cl.on["fc"] && len(order) <= 90 {
			// every pair once the whole history is indexed: what the caches kept from the previous history would show here
			for _, ga := range order {
				for _, gb := range order {
					a, b := cl.pool[ga], cl.pool[gb]
					got := index.ForklessCause(a.Ev.ID(), b.Ev.ID())
					want := d.ForklessCause(lmap[a.L], lmap[b.L])
					c.Count("fc_queries", 1)
					if got != want {
						c.Violation("forkless-cause", "forkless-cause/direct-index", "direct index drive, life %d (the same index object served another history before; weights %v): ForklessCause(A=%s, B=%s) = %v, graph definition says %v",
							life, rv.W, cl.descEv(a), cl.descEv(b), got, want)
					}
				}
			}
		}
	}
	ident := map[int]int{}
	for _, g := range ord {
		ident[cl.pool[g].L] = cl.pool[g].L
	}
	life(1, er.RV, er.PV, er.D, ident, ord)
	// second life: same ids, other weights
	ws2 := make([]uint64, len(er.ids))
	var tot uint64
	for i := range ws2 {
		ws2[i] = 1 + sim.Mix(seed, uint64(i), 9)%7
		tot += ws2[i]
	}
	rv2 := ref.NewValidators(er.ids, ws2)
	b := pos.NewBuilder()
	for i, id := range er.ids {
		b.Set(idx.ValidatorID(id), pos.Weight(ws2[i]))
	}
	d2 := ref.NewDAG(rv2)
	lmap := map[int]int{}
	for _, g := range ord {
		pe := cl.pool[g]
		var ps []int
		for _, p := range cl.parentsG(pe) {
			ps = append(ps, lmap[cl.pool[p].L])
		}
		lmap[pe.L] = d2.Add(uint32(pe.Ev.Creator()), uint32(pe.Ev.Seq()), uint32(pe.Ev.Lamport()), uint32(pe.Ev.Frame()), ps).I
	}
	life(2, rv2, b.Build(), d2, lmap, ord)
	c.Probe("index_reused_after_reset")
	// third life: the same object is reset onto an empty database and receives only a part of the events (a
	// rolled-back history): nothing remembered from the longer history may show
	k := len(ord) * 2 / 3
	if k >= 2 {
		d3 := ref.NewDAG(rv2)
		lmap3 := map[int]int{}
		for _, g := range ord[:k] {
			pe := cl.pool[g]
			var ps []int
			for _, p := range cl.parentsG(pe) {
				ps = append(ps, lmap3[cl.pool[p].L])
			}
			lmap3[pe.L] = d3.Add(uint32(pe.Ev.Creator()), uint32(pe.Ev.Seq()), uint32(pe.Ev.Lamport()), uint32(pe.Ev.Frame()), ps).I
		}
		life(3, rv2, b.Build(), d3, lmap3, ord[:k])
		c.Probe("index_reused_for_a_shorter_history")
	}
	// sixth life: two databases holding the same events, indexed in two different parents-first orders (fork
	// branches get their numbers in order of arrival), and the same index object switching from one to the other:
	// after the switch every answer comes from the database it was reset onto, not from what it remembers
	if len(ord) <= 90 {
		perm := func(tag uint64) []int {
			done := map[int]bool{}
			var order []int
			for len(order) < len(ord) {
				var ready []int
				for _, g := range ord {
					if done[g] {
						continue
					}
					ok := true
					for _, p := range cl.parentsG(cl.pool[g]) {
						if !done[p] {
							ok = false
						}
					}
					if ok {
						ready = append(ready, g)
					}
				}
				g := ready[sim.Mix(seed, tag, uint64(len(order)))%uint64(len(ready))]
				done[g] = true
				order = append(order, g)
			}
			return order
		}
		func() {
			defer func() {
				if r := recover(); r != nil {
					if cp, ok := r.(critPanic); ok {
						c.Violation("crit", "crit:"+critSig(cp.err.Error()), "direct index drive (two databases): %v", cp.err)
					}
					panic(r)
				}
			}()
			dbA, dbB := memorydb.New(), memorydb.New()
			for i, db := range []kvdb.Store{dbA, dbB} {
				index.Reset(er.PV, db, getEvent)
				for _, g := range perm(uint64(21 + i)) {
					if err := index.Add(cl.pool[g].Ev); err != nil {
						c.Violation("index-add-error", "index-add-error", "direct index drive (two databases): Add(%s) = %v", cl.descEv(cl.pool[g]), err)
					}
					index.Flush()
				}
			}
			index.Reset(er.PV, dbA, getEvent)
			for _, ga := range ord {
				a := cl.pool[ga]
				if cl.on["clock"] {
					m := index.GetMergedHighestBefore(a.Ev.ID())
					for ci, id := range er.RV.IDs {
						ws, wf := er.D.HighestSeq(a.L, ci)
						gv := m.Get(er.PV.GetIdx(idx.ValidatorID(id)))
						if gv.IsForkDetected() != wf || (!wf && uint32(gv.Seq) != ws) {
							c.Violation("merged-clock", "merged-clock/direct-index", "direct index drive, index object reset onto a database that holds the events already (it served another database with the same events before): merged clock of %s for validator %d: fork=%v seq=%d, definition fork=%v seq=%d", cl.descEv(a), id, gv.IsForkDetected(), gv.Seq, wf, ws)
						}
					}
				}
				if cl.on["fc"] && len(ord) <= 45 {
					for _, gb := range ord {
						bb := cl.pool[gb]
						if got, want := index.ForklessCause(a.Ev.ID(), bb.Ev.ID()), er.D.ForklessCause(a.L, bb.L); got != want {
							c.Violation("forkless-cause", "forkless-cause/direct-index", "direct index drive, index object reset onto a database that holds the events already: ForklessCause(A=%s, B=%s) = %v, graph definition says %v", cl.descEv(a), cl.descEv(bb), got, want)
						}
					}
				}
			}
			c.Probe("index_switched_between_two_databases_with_the_same_events")
		}()
	}
	// fourth and fifth life: two histories that continue differently after a common part (the two sides of a
	// fork, each without the other side and its descendants): events with the same creator and sequence number
	// but different ancestry are indexed by the same object one history after the other
	bySlot := map[[2]uint32][]int{}
	for _, g := range ord {
		pe := cl.pool[g]
		k := [2]uint32{uint32(pe.Ev.Creator()), uint32(pe.Ev.Seq())}
		bySlot[k] = append(bySlot[k], g)
	}
	s1, s2 := -1, -1
	for _, g := range ord { // first fork pair in processing order (deterministic)
		pe := cl.pool[g]
		if l := bySlot[[2]uint32{uint32(pe.Ev.Creator()), uint32(pe.Ev.Seq())}]; len(l) >= 2 {
			s1, s2 = l[0], l[1]
			break
		}
	}
	if s1 >= 0 {
		without := func(s int) []int {
			has := map[int]bool{s: true}
			var r []int
			for _, g := range ord {
				for _, p := range cl.parentsG(cl.pool[g]) {
					if has[p] {
						has[g] = true
					}
				}
				if !has[g] {
					r = append(r, g)
				}
			}
			return r
		}
		listA, listB := without(s2), without(s1)
		inB := map[int]bool{}
		for _, g := range listB {
			inB[g] = true
		}
		inA := map[int]bool{}
		var common, restA, restB []int
		for _, g := range listA {
			inA[g] = true
			if inB[g] {
				common = append(common, g)
			} else {
				restA = append(restA, g)
			}
		}
		for _, g := range listB {
			if !inA[g] {
				restB = append(restB, g)
			}
		}
		pv2 := b.Build()
		mkRef := func(list []int) (*ref.DAG, map[int]int) {
			dd := ref.NewDAG(rv2)
			lm := map[int]int{}
			for _, g := range list {
				pe := cl.pool[g]
				var ps []int
				for _, p := range cl.parentsG(pe) {
					ps = append(ps, lm[cl.pool[p].L])
				}
				lm[pe.L] = dd.Add(uint32(pe.Ev.Creator()), uint32(pe.Ev.Seq()), uint32(pe.Ev.Lamport()), uint32(pe.Ev.Frame()), ps).I
			}
			return dd, lm
		}
		addAll := func(what string, list []int) {
			for _, g := range list {
				if err := index.Add(cl.pool[g].Ev); err != nil {
					c.Violation("index-add-error", "index-add-error", "direct index drive (%s): Add(%s) = %v", what, cl.descEv(cl.pool[g]), err)
				}
				index.Flush()
			}
		}
		allPairs := func(what string, list []int) {
			dd, lm := mkRef(list)
			for _, ga := range list {
				for _, gb := range list {
					a, bb := cl.pool[ga], cl.pool[gb]
					got := index.ForklessCause(a.Ev.ID(), bb.Ev.ID())
					want := dd.ForklessCause(lm[a.L], lm[bb.L])
					c.Count("fc_queries", 1)
					if cl.on["fc"] && got != want {
						c.Violation("forkless-cause", "forkless-cause/direct-index", "direct index drive, %s (weights %v): ForklessCause(A=%s, B=%s) = %v, graph definition says %v",
							what, rv2.W, cl.descEv(a), cl.descEv(bb), got, want)
					}
				}
				if cl.on["clock"] {
					a := cl.pool[ga]
					m := index.GetMergedHighestBefore(a.Ev.ID())
					for ci, id := range rv2.IDs {
						ws, wf := dd.HighestSeq(lm[a.L], ci)
						gv := m.Get(pv2.GetIdx(idx.ValidatorID(id)))
						if gv.IsForkDetected() != wf || (!wf && uint32(gv.Seq) != ws) {
							c.Violation("merged-clock", "merged-clock/direct-index", "direct index drive, %s: merged clock of %s for validator %d: fork=%v seq=%d, definition fork=%v seq=%d", what, cl.descEv(a), id, gv.IsForkDetected(), gv.Seq, wf, ws)
						}
					}
				}
			}
		}
		if len(common) >= 1 && len(restA) >= 1 && len(restB) >= 1 && len(listA) <= 90 && len(listB) <= 90 {
			func() {
				defer func() {
					if r := recover(); r != nil {
						if cp, ok := r.(critPanic); ok {
							c.Violation("crit", "crit:"+critSig(cp.err.Error()), "direct index drive (different continuations): %v", cp.err)
						}
						panic(r)
					}
				}()
				// history A on a fresh database; the database is copied when the common part is in
				db0 := memorydb.New()
				index.Reset(pv2, db0, getEvent)
				addAll("history A, common part", common)
				snap := copyStore(db0)
				addAll("history A, its own continuation", restA)
				allPairs("history A", listA)
				// the same index object is reset onto the copy (the rolled-back database) and receives the other continuation
				index.Reset(pv2, snap, getEvent)
				addAll("history B (index object and database state re-used after history A)", restB)
				allPairs("history B, continued from the database state before history A diverged, same index object", listB)
			}()
			c.Probe("index_reused_for_a_different_continuation")
		}
	}
}

func (cl *Cluster) firstLive() *Node {
	for _, n := range cl.nodes {
		if !n.stopped {
			return n
		}
	}
	return nil
}

func (x *extras) joiners() {
	cl := x.cl
	c := cl.c
	src := cl.firstLive()
	if src == nil {
		return
	}
	for e := uint32(2); e <= src.epoch(); e++ {
		want := src.epochBlocks(e)
		for variant := 0; variant < 4; variant++ {
			j := cl.newShadow(fmt.Sprintf("joiner(epoch %d, variant %d)", e, variant), newDBs(), true)
			if variant == 1 {
				// reset in the middle of some other epoch: first process a part of epoch 1
				o := src.order[1]
				for _, g := range o[:len(o)/2] {
					if err := j.process(cl.pool[g]); err != nil {
						c.Violation("valid-rejected", "valid-rejected/joiner", "%s rejected %s: %v", j.name, cl.descEv(cl.pool[g]), err)
					}
				}
			}
			j.blocks = nil
			var err error
			j.guard("Reset", func() { err = j.inst.lch.Reset(idx.Epoch(e), cl.epochRef(e).PV) })
			if err != nil {
				c.Violation("joiner", "joiner/reset-error", "%s: Reset returned %v", j.name, err)
			}
			c.Count("joiner_resets", 1)
			if j.inst.store.GetLastDecidedFrame() != 0 || uint32(j.inst.store.GetEpoch()) != e {
				c.Violation("joiner", "joiner/state", "%s: after Reset epoch=%d decided=%d", j.name, j.inst.store.GetEpoch(), j.inst.store.GetLastDecidedFrame())
			}
			if variant == 3 {
				// the instance was first reset to this epoch with ANOTHER validator set (the previous epoch's weights for the
				// same members), worked on a part of the epoch's events under it (rejections are expected there), and is
				// then reset to the epoch with the right set: nothing evaluated under the wrong weights may survive
				prev, cur := cl.epochRef(e-1), cl.epochRef(e)
				same := len(prev.ids) == len(cur.ids) && prev.PV.String() != cur.PV.String()
				for i := range prev.ids {
					if same && prev.ids[i] != cur.ids[i] {
						same = false
					}
				}
				if !same || len(src.order[e]) < 2 {
					continue
				}
				ok := func() (ok bool) {
					defer func() {
						if r := recover(); r != nil {
							if _, is := r.(critPanic); !is {
								panic(r)
							}
							ok = false // a critical error under the wrong weights is not the library's fault
						}
					}()
					if err := j.inst.lch.Reset(idx.Epoch(e), prev.PV); err != nil {
						return false
					}
					o := src.order[e]
					for _, g := range o[:len(o)/2] {
						if uint32(j.inst.store.GetEpoch()) != e {
							return false
						}
						pe := cl.pool[g]
						j.events[pe.Ev.ID()] = pe
						if err := j.inst.lch.Process(pe.Ev); err != nil {
							delete(j.events, pe.Ev.ID())
						}
					}
					return uint32(j.inst.store.GetEpoch()) == e
				}()
				if !ok {
					continue
				}
				j.blocks = nil
				j.events = map[hash.Event]*PEvent{}
				j.guard("Reset", func() { err = j.inst.lch.Reset(idx.Epoch(e), cl.epochRef(e).PV) })
				if err != nil {
					c.Violation("joiner", "joiner/reset-error", "%s: Reset to the right validator set returned %v", j.name, err)
				}
				c.Probe("reset_to_the_current_epoch_after_a_wrong_validator_set")
			}
			if variant == 2 && len(src.order[e]) >= 2 {
				// reset to the epoch the instance is already in (its epoch database exists under that number and holds
				// events and decisions): the epoch starts over, empty
				o := src.order[e]
				for _, g := range o[:len(o)/2] {
					if uint32(j.inst.store.GetEpoch()) != e {
						break
					}
					if err := j.process(cl.pool[g]); err != nil {
						c.Violation("valid-rejected", "valid-rejected/joiner", "%s rejected %s: %v", j.name, cl.descEv(cl.pool[g]), err)
					}
				}
				if uint32(j.inst.store.GetEpoch()) == e {
					j.blocks = nil
					j.guard("Reset", func() { err = j.inst.lch.Reset(idx.Epoch(e), cl.epochRef(e).PV) })
					if err != nil {
						c.Violation("joiner", "joiner/reset-error", "%s: second Reset returned %v", j.name, err)
					}
					c.Probe("reset_to_the_current_epoch")
					if j.inst.store.GetLastDecidedFrame() != 0 || uint32(j.inst.store.GetEpoch()) != e || len(j.inst.store.GetFrameRoots(1)) != 0 {
						c.Violation("joiner", "joiner/state", "%s: after Reset to the current epoch: epoch=%d decided=%d roots(1)=%d", j.name, j.inst.store.GetEpoch(), j.inst.store.GetLastDecidedFrame(), len(j.inst.store.GetFrameRoots(1)))
					}
				} else {
					continue // the half already sealed the epoch: nothing to compare in this variant
				}
			}
			for _, g := range src.order[e] {
				if uint32(j.inst.store.GetEpoch()) != e {
					break
				}
				if err := j.process(cl.pool[g]); err != nil {
					c.Violation("valid-rejected", "valid-rejected/joiner", "%s rejected %s: %v", j.name, cl.descEv(cl.pool[g]), err)
				}
			}
			if len(j.blocks) != len(want) {
				c.Violation("joiner", "joiner/blocks", "%s emitted %d blocks for epoch %d, the sealing instance %s emitted %d\n joiner: %s\n sealer: %s", j.name, len(j.blocks), e, src.name, len(want), cl.fmtBlocks(j.blocks), cl.fmtBlocks(want))
			}
			for i := range want {
				if want[i].key() != j.blocks[i].key() {
					c.Violation("joiner", "joiner/blocks", "%s block %d of epoch %d is %s, the sealing instance has %s", j.name, i, e, j.blocks[i].key(), want[i].key())
				}
			}
			if len(want) > 0 {
				c.Probe("joiner_compared_nonempty_epoch")
			}
		}
	}
}

type stepRec struct {
	err    string
	blocks int
	digest string
}

// restartEnum: replays the first live node's whole Process history on an instance that keeps
// running, snapshots the databases at every boundary, and for every boundary restarts a copy and
// runs the rest of the history on it.
func (x *extras) restartEnum() {
	cl := x.cl
	c := cl.c
	src := cl.firstLive()
	if src == nil {
		return
	}
	calls := src.calls
	L := len(calls)
	if L == 0 {
		return
	}
	keep := cl.newShadow("kept-running", newDBs(), true)
	snaps := make([]*nodeDBs, L+1)
	evs := make([]map[hash.Event]*PEvent, L+1)
	recs := make([]stepRec, L)
	nblk := make([]int, L+1)
	cp := func(m map[hash.Event]*PEvent) map[hash.Event]*PEvent {
		r := make(map[hash.Event]*PEvent, len(m))
		for k, v := range m {
			r[k] = v
		}
		return r
	}
	for i, call := range calls {
		snaps[i] = keep.dbs.clone(uint32(keep.inst.store.GetEpoch()))
		evs[i] = cp(keep.events)
		nblk[i] = len(keep.blocks)
		err := keep.process(cl.pool[call.G])
		es := ""
		if err != nil {
			es = err.Error()
		}
		if es != call.Err {
			c.Violation("restart", "restart/history-replay", "kept-running instance: Process(%s) = %q but the cluster node returned %q", cl.descEv(cl.pool[call.G]), es, call.Err)
		}
		recs[i] = stepRec{es, len(keep.blocks), stateDigest(keep.inst, keep.dbs, false)}
	}
	snaps[L] = keep.dbs.clone(uint32(keep.inst.store.GetEpoch()))
	evs[L] = cp(keep.events)
	nblk[L] = len(keep.blocks)

	second := c.Tier == "thorough"
	for i := 0; i <= L; i++ {
		x.restartAt(keep, calls, recs, snaps, evs, nblk, i, -1)
		c.Count("restart_boundaries", 1)
		if i > 0 && i < L {
			if recs[i-1].blocks > nblk[i-1] {
				c.Probe("restart_right_after_decision")
			}
			if recs[i-1].err != "" {
				c.Probe("restart_right_after_rejection")
			}
		}
		if second && i < L {
			j := i + 1 + int(sim.Mix(uint64(i), uint64(L))%uint64(L-i))
			x.restartAt(keep, calls, recs, snaps, evs, nblk, i, j)
		}
	}
	for i := 1; i < L; i++ {
		if len(recs[i].digest) > 6 && recs[i].digest[:8] != recs[i-1].digest[:8] {
			c.Probe("restart_right_after_seal")
			break
		}
	}
	if len(keep.blocks) >= 2 {
		c.MarkNontrivial()
	}
}

func (x *extras) restartAt(keep *shadow, calls []procCall, recs []stepRec, snaps []*nodeDBs, evs []map[hash.Event]*PEvent, nblk []int, i, j int) {
	cl := x.cl
	c := cl.c
	var curEpoch uint32
	for e := range snaps[i].epochs {
		curEpoch = e
	}
	r := &shadow{cl: cl, name: fmt.Sprintf("restarted@%d", i), dbs: snaps[i].clone(curEpoch), events: map[hash.Event]*PEvent{}}
	for k, v := range evs[i] {
		r.events[k] = v
	}
	r.guard("bootstrap after restart", func() { r.inst = newInstance(r.dbs, cl.k.cc, r.critFn, r, nil, r.callbacks()) })
	if len(r.blocks) != 0 {
		c.Violation("restart", "restart/block-on-bootstrap", "restart at boundary %d: Bootstrap re-emitted %d block(s): %s", i, len(r.blocks), cl.fmtBlocks(r.blocks))
	}
	base := nblk[i]
	for s := i; s < len(calls); s++ {
		if s == j {
			// second restart
			r.inst = nil
			nb := len(r.blocks)
			r.guard("bootstrap after second restart", func() { r.inst = newInstance(r.dbs, cl.k.cc, r.critFn, r, nil, r.callbacks()) })
			if len(r.blocks) != nb {
				c.Violation("restart", "restart/block-on-bootstrap", "second restart at boundary %d: Bootstrap emitted a block", s)
			}
			c.Count("second_restarts", 1)
		}
		pe := cl.pool[calls[s].G]
		err := r.process(pe)
		es := ""
		if err != nil {
			es = err.Error()
		}
		if es != recs[s].err {
			c.Violation("restart", "restart/accept", "restart at boundary %d (second at %d): Process(%s) at step %d = %q, the instance that kept running returned %q", i, j, cl.descEv(pe), s, es, recs[s].err)
		}
		if base+len(r.blocks) != recs[s].blocks {
			c.Violation("restart", "restart/blocks", "restart at boundary %d (second at %d): after step %d the restarted instance has emitted %d blocks since the restart, the instance that kept running %d\n restarted: %s\n kept: %s",
				i, j, s, len(r.blocks), recs[s].blocks-base, cl.fmtBlocks(r.blocks), cl.fmtBlocks(keep.blocks[base:recs[s].blocks]))
		}
		if d := stateDigest(r.inst, r.dbs, false); d != recs[s].digest {
			c.Violation("restart", "restart/state", "restart at boundary %d (second at %d): state after step %d differs\n restarted: %s\n kept:      %s", i, j, s, d, recs[s].digest)
		}
	}
	for bi, b := range r.blocks {
		k := keep.blocks[base+bi]
		if b.key() != k.key() || fmt.Sprint(b.Applied) != fmt.Sprint(k.Applied) {
			c.Violation("restart", "restart/blocks", "restart at boundary %d: block %s %v differs from %s %v of the instance that kept running", i, b.key(), b.Applied, k.key(), k.Applied)
		}
	}
	if i == len(calls) {
		if d := stateDigest(r.inst, r.dbs, false); len(recs) > 0 && d != recs[len(recs)-1].digest {
			c.Violation("restart", "restart/state", "restart after the last event: state differs\n restarted: %s\n kept:      %s", d, recs[len(recs)-1].digest)
		}
	}
}

// permutationTwin (C01): a fresh observer instance receives exactly the events the first live node
// processed, epoch by epoch, in an independently chosen parents-first linearisation; every valid event
// must be accepted and the emitted blocks must be identical.
func (x *extras) permutationTwin() {
	cl := x.cl
	c := cl.c
	src := cl.firstLive()
	if src == nil {
		return
	}
	from := src.resetFrom
	if from == 0 {
		from = 1
	}
	tw := cl.newShadow("permutation-twin", newDBs(), true)
	if from > 1 {
		var err error
		tw.guard("Reset", func() { err = tw.inst.lch.Reset(idx.Epoch(from), cl.epochRef(from).PV) })
		if err != nil {
			c.Violation("reset-error", "reset-error", "permutation twin: Reset returned %v", err)
		}
	}
	seed := sim.Mix(cl.k.vsetSeed, uint64(len(cl.pool)), 0x7e)
	for e := from; e <= src.epoch(); e++ {
		ord := src.order[e]
		inSet := map[int]bool{}
		for _, g := range ord {
			inSet[g] = true
		}
		done := map[int]bool{}
		fed := 0
		for fed < len(ord) && uint32(tw.inst.store.GetEpoch()) == e {
			var ready []int
			for _, g := range ord {
				if done[g] {
					continue
				}
				ok := true
				for _, p := range cl.parentsG(cl.pool[g]) {
					if inSet[p] && !done[p] {
						ok = false
					}
				}
				if ok {
					ready = append(ready, g)
				}
			}
			if len(ready) == 0 {
				break
			}
			g := ready[sim.Mix(seed, uint64(e), uint64(fed))%uint64(len(ready))]
			done[g] = true
			fed++
			if err := tw.process(cl.pool[g]); err != nil {
				c.Violation("valid-rejected", "valid-rejected/permutation-twin", "an observer fed the same events in another parents-first order rejected %s: %v", cl.descEv(cl.pool[g]), err)
			}
		}
		c.Count("permutation_twin_events", int64(fed))
	}
	var want []*BlockRec
	for _, b := range src.blocks {
		if b.Epoch >= from {
			want = append(want, b)
		}
	}
	// the twin may have processed fewer events of the last epochs than the source only if it sealed earlier in
	// its order; its blocks must be a prefix-equal sequence of the source's blocks, and equal when all was fed
	for i, b := range tw.blocks {
		if i >= len(want) || want[i].key() != b.key() {
			got := ""
			if i < len(want) {
				got = want[i].key()
			}
			c.Violation("disagreement", "disagreement/permutation-twin", "block %d: an observer fed the same events in another parents-first order emitted %s, node %s emitted %s", i, b.key(), src.name, got)
		}
	}
	if len(tw.blocks) != len(want) {
		c.Violation("disagreement", "disagreement/permutation-twin", "an observer fed the same events in another parents-first order emitted %d blocks, node %s emitted %d\n twin: %s\n node: %s", len(tw.blocks), src.name, len(want), cl.fmtBlocks(tw.blocks), cl.fmtBlocks(want))
	}
	if len(want) > 0 {
		c.Probe("permutation_twin_compared_blocks")
	}
}
