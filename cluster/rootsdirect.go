package cluster

import (
	"fmt"
	"sort"

	"github.com/Fantom-foundation/lachesis-base/abft"
	"github.com/Fantom-foundation/lachesis-base/hash"
	"github.com/Fantom-foundation/lachesis-base/inter/dag"
	"github.com/Fantom-foundation/lachesis-base/inter/idx"
	"github.com/Fantom-foundation/lachesis-base/inter/pos"

	"verif/sim"
)

// RunRootsDirect (C33, direct drive): short histories of root registrations, queries and epoch
// switches straight against abft.Store, with tiny caches.
func RunRootsDirect(c *sim.Ctx) {
	knob := func(name string, lo, hi int) int {
		return int(c.Knob(name, func() int64 { return int64(c.Int(name, lo, hi)) }))
	}
	choices := []int{0, 1, 2, 3, 5, 100}
	cc := cacheCfg{rootsNum: uint(choices[knob("roots_num", 0, 5)]), rootsFrames: choices[knob("roots_frames", 0, 5)], fcPairs: 16, hbSize: 64, laSize: 64}
	nOps := knob("ops", 2, 40)
	c.ProbeDecl("multi_frame_root", "query_of_cached_frame_after_registration", "epoch_switch_with_roots", "fork_roots_in_one_slot", "reset_to_the_same_epoch", "frame_with_more_than_100_roots")

	dbs := newDBs()
	var critErr error
	crit := func(err error) { critErr = err; panic(critPanic{err}) }
	vals := pos.EqualWeightValidators([]idx.ValidatorID{1, 2, 3, 4}, 1)
	store := abft.NewStore(dbs.main, dbs.producer(), crit, abft.StoreConfig{Cache: abft.StoreCacheConfig{RootsNum: cc.rootsNum, RootsFrames: cc.rootsFrames}})
	if err := store.ApplyGenesis(&abft.Genesis{Epoch: 1, Validators: vals}); err != nil {
		panic(err)
	}
	src := &mapSource{m: map[hash.Event]dag.Event{}}
	ord := abft.NewOrderer(store, src, nopIndex{}, crit, abft.LiteConfig())
	guard := func(what string, f func()) {
		defer func() {
			if r := recover(); r != nil {
				if cp, ok := r.(critPanic); ok {
					c.Violation("crit", "crit:"+critSig(cp.err.Error()), "direct store drive: critical error during %s: %v", what, cp.err)
				}
				panic(r)
			}
		}()
		f()
	}
	guard("Bootstrap", func() {
		if err := ord.Bootstrap(abft.OrdererCallbacks{}); err != nil {
			panic(err)
		}
	})
	_ = critErr
	epoch := uint32(1)
	model := map[uint32][]string{} // frame -> registered (id/frame/creator)
	queried := map[uint32]bool{}
	nEv := 0
	gen := func() (sim.Op, bool) {
		if len(c.Trace.Ops) >= nOps {
			return sim.Op{}, false
		}
		if c.Chance("many_roots", 25) {
			// more than a hundred roots in one frame (many validators or many forks), registered in one go
			return sim.Op{K: "addmany", A: []int64{int64(c.Int("frame", 1, 6)), int64(101 + c.Pick("more", 40))}}, true
		}
		switch c.PickW("op", []int{10, 10, 1}) {
		case 0:
			sp := c.Int("self_parent_frame", 0, 5)
			return sim.Op{K: "addroot", A: []int64{int64(c.Int("creator", 1, 4)), int64(sp), int64(sp + 1 + c.PickW("jump", []int{6, 3, 1}))}}, true
		case 1:
			return sim.Op{K: "query", A: []int64{int64(c.Int("frame", 1, 8))}}, true
		default:
			if c.Chance("reset_to_the_same_epoch", 400) {
				return sim.Op{K: "reset", A: []int64{1}}, true
			}
			return sim.Op{K: "reset"}, true
		}
	}
	check := func(f uint32, how string) {
		var got []string
		guard("GetFrameRoots", func() {
			for _, r := range store.GetFrameRoots(idx.Frame(f)) {
				got = append(got, fmt.Sprintf("%x/f%d/v%d", r.ID[8:12], r.Slot.Frame, r.Slot.Validator))
			}
		})
		want := append([]string{}, model[f]...)
		sort.Strings(got)
		sort.Strings(want)
		c.Count("frame_roots_queries", 1)
		if fmt.Sprint(got) != fmt.Sprint(want) {
			c.Violation("frame-roots", "frame-roots/direct", "direct store drive (%s, epoch %d, cache RootsNum=%d RootsFrames=%d): GetFrameRoots(%d) = %v, registered: %v", how, epoch, cc.rootsNum, cc.rootsFrames, f, got, want)
		}
		queried[f] = true
	}
	for {
		op, ok := c.Next(gen)
		if !ok {
			break
		}
		c.SimTime(1)
		switch op.K {
		case "addroot":
			if len(op.A) < 3 {
				continue
			}
			creator, spf, fr := uint32(op.A[0]), uint32(op.A[1]), uint32(op.A[2])
			if fr <= spf {
				continue
			}
			nEv++
			me := &dag.MutableBaseEvent{}
			me.SetEpoch(idx.Epoch(epoch))
			me.SetSeq(idx.Event(nEv))
			me.SetCreator(idx.ValidatorID(creator))
			me.SetLamport(idx.Lamport(nEv))
			me.SetFrame(idx.Frame(fr))
			var rid [24]byte
			rid[0], rid[1], rid[2] = byte(nEv>>8), byte(nEv), 0x33
			ev := me.Build(rid)
			guard("AddRoot", func() { store.AddRoot(idx.Frame(spf), ev) })
			id := ev.ID()
			for f := spf + 1; f <= fr; f++ {
				for _, x := range model[f] {
					if len(x) > 0 && x[len(x)-1] == byte('0'+creator) {
						c.Probe("fork_roots_in_one_slot")
					}
				}
				model[f] = append(model[f], fmt.Sprintf("%x/f%d/v%d", id[8:12], f, creator))
				if queried[f] {
					c.Probe("query_of_cached_frame_after_registration")
				}
			}
			if fr > spf+1 {
				c.Probe("multi_frame_root")
			}
			for f := spf + 1; f <= fr; f++ {
				check(f, "after registration")
			}
		case "addmany":
			if len(op.A) < 2 {
				continue
			}
			fr, k := uint32(op.A[0]), int(op.A[1])
			if fr < 1 || k > 200 {
				continue
			}
			for j := 0; j < k; j++ {
				nEv++
				creator := uint32(1 + j%4)
				me := &dag.MutableBaseEvent{}
				me.SetEpoch(idx.Epoch(epoch))
				me.SetSeq(idx.Event(nEv))
				me.SetCreator(idx.ValidatorID(creator))
				me.SetLamport(idx.Lamport(nEv))
				me.SetFrame(idx.Frame(fr))
				var rid [24]byte
				rid[0], rid[1], rid[2] = byte(nEv>>8), byte(nEv), 0x34
				ev := me.Build(rid)
				guard("AddRoot", func() { store.AddRoot(idx.Frame(fr-1), ev) })
				id := ev.ID()
				model[fr] = append(model[fr], fmt.Sprintf("%x/f%d/v%d", id[8:12], fr, creator))
			}
			c.Probe("frame_with_more_than_100_roots")
			check(fr, "after registering many roots")
		case "query":
			check(uint32(op.A[0]), "query")
		case "reset":
			if len(model) > 0 {
				c.Probe("epoch_switch_with_roots")
			}
			if len(op.A) > 0 && op.A[0] == 1 {
				// the epoch starts over under its own number (its database exists under that number and is re-created)
				c.Probe("reset_to_the_same_epoch")
			} else {
				epoch++
			}
			guard("Reset", func() {
				if err := ord.Reset(idx.Epoch(epoch), vals); err != nil {
					c.Violation("reset-error", "reset-error", "Reset: %v", err)
				}
			})
			model = map[uint32][]string{}
			queried = map[uint32]bool{}
			for f := uint32(1); f <= 8; f++ {
				check(f, "after epoch switch")
			}
		}
	}
	for f := uint32(1); f <= 9; f++ {
		check(f, "final sweep")
	}
	if len(c.Trace.Ops) >= 5 {
		c.MarkNontrivial()
	}
	c.State(sim.Mix(uint64(epoch), uint64(nEv), uint64(cc.rootsNum), uint64(cc.rootsFrames)))
}

type mapSource struct{ m map[hash.Event]dag.Event }

func (s *mapSource) HasEvent(h hash.Event) bool      { _, ok := s.m[h]; return ok }
func (s *mapSource) GetEvent(h hash.Event) dag.Event { return s.m[h] }

type nopIndex struct{}

func (nopIndex) ForklessCause(a, b hash.Event) bool { return false }
