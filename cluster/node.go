// Package cluster is engine E1: a single-threaded simulation of a network of lachesis-base
// consensus instances (DESIGN.md §3.1).  Real code per node: abft.IndexedLachesis, abft.Store,
// election, vecfc.Index/vecengine, adapters.VectorToDagIndexer, dagordering.EventsBuffer,
// eventcheck.Checkers, ancestor.QuorumIndexer, memorydb.  Stubs: transport, application, event store.
package cluster

import (
	"crypto/sha256"
	"encoding/binary"
	"fmt"

	"github.com/Fantom-foundation/lachesis-base/abft"
	"github.com/Fantom-foundation/lachesis-base/eventcheck"
	"github.com/Fantom-foundation/lachesis-base/eventcheck/basiccheck"
	"github.com/Fantom-foundation/lachesis-base/eventcheck/epochcheck"
	"github.com/Fantom-foundation/lachesis-base/eventcheck/parentscheck"
	"github.com/Fantom-foundation/lachesis-base/gossip/dagordering"
	"github.com/Fantom-foundation/lachesis-base/hash"
	"github.com/Fantom-foundation/lachesis-base/inter/dag"
	"github.com/Fantom-foundation/lachesis-base/inter/idx"
	"github.com/Fantom-foundation/lachesis-base/inter/pos"
	"github.com/Fantom-foundation/lachesis-base/kvdb"
	"github.com/Fantom-foundation/lachesis-base/kvdb/memorydb"
	"github.com/Fantom-foundation/lachesis-base/lachesis"
	"github.com/Fantom-foundation/lachesis-base/utils/adapters"
	"github.com/Fantom-foundation/lachesis-base/vecfc"
)

// PEvent is an event of the global pool (everything any emitter ever created).
type PEvent struct {
	G     int // global index
	Epoch uint32
	L     int // index in the epoch's reference DAG
	Ev    *dag.BaseEvent
	Valid bool // by the reference frame rule
	By    int  // creating node
}

type BlockRec struct {
	Epoch    uint32
	Frame    uint32
	Atropos  int // G
	Cheaters []uint32
	kept     lachesis.Cheaters // the very slice the library handed over, retained the way applications retain blocks
	Applied  []int             // G, in callback order
	Sealed   bool
}

func (b *BlockRec) key() string {
	return fmt.Sprintf("e%d/f%d/a%d/c%v/s%v", b.Epoch, b.Frame, b.Atropos, b.Cheaters, b.Sealed)
}

// Instance is one incarnation of the consensus objects over a node's databases.
type Instance struct {
	store *abft.Store
	index *vecfc.Index
	dagi  *adapters.VectorToDagIndexer
	lch   *abft.IndexedLachesis
}

type nodeDBs struct {
	main   kvdb.Store
	epochs map[uint32]kvdb.Store
}

type Node struct {
	cl   *Cluster
	id   int
	val  uint32 // validator id this node signs with (0 = observer)
	name string

	dbs  *nodeDBs
	inst *Instance

	events map[hash.Event]*PEvent // the node's event store (stub of the application's DB)
	buf    *dagordering.EventsBuffer
	has    map[int]bool
	order  map[uint32][]int // epoch -> processed G's in processing order
	blocks []*BlockRec
	cur    *BlockRec  // block being applied
	calls  []procCall // every Process call (for twins / restart enumeration)

	crit    error // set when the library called crit
	stopped bool  // instance stopped after a tolerated crit (>= 1/3 Byzantine runs)
	lastOwn int   // last event this node created and accepted (-1)

	resetFrom      uint32 // epochs below this one were skipped by a Reset
	restarts       int
	buildsThisLife int
	inProcess      bool
}

type procCall struct {
	G   int
	Err string
}

type critPanic struct{ err error }

func (c critPanic) Error() string  { return "crit: " + c.err.Error() }
func (c critPanic) String() string { return "crit: " + c.err.Error() }

func (n *Node) critFn(err error) {
	n.crit = err
	panic(critPanic{err})
}

func eventID(epoch, creator, seq, lamport, frame uint32, parents hash.Events, salt uint32) (rid [24]byte) {
	h := sha256.New()
	var b [24]byte
	binary.BigEndian.PutUint32(b[0:], epoch)
	binary.BigEndian.PutUint32(b[4:], creator)
	binary.BigEndian.PutUint32(b[8:], seq)
	binary.BigEndian.PutUint32(b[12:], lamport)
	binary.BigEndian.PutUint32(b[16:], frame)
	binary.BigEndian.PutUint32(b[20:], salt)
	h.Write(b[:])
	for _, p := range parents {
		h.Write(p.Bytes())
	}
	copy(rid[:], h.Sum(nil))
	return
}

func newDBs() *nodeDBs {
	return &nodeDBs{main: memorydb.New(), epochs: map[uint32]kvdb.Store{}}
}

func copyStore(src kvdb.Store) kvdb.Store {
	dst := memorydb.New()
	it := src.NewIterator(nil, nil)
	for it.Next() {
		if err := dst.Put(append([]byte{}, it.Key()...), append([]byte{}, it.Value()...)); err != nil {
			panic(err)
		}
	}
	it.Release()
	return dst
}

func (d *nodeDBs) clone(curEpoch uint32) *nodeDBs {
	c := &nodeDBs{main: copyStore(d.main), epochs: map[uint32]kvdb.Store{}}
	if s, ok := d.epochs[curEpoch]; ok {
		c.epochs[curEpoch] = copyStore(s)
	}
	return c
}

type dropTrackingStore struct {
	kvdb.Store
	onDrop func()
}

func (s *dropTrackingStore) Drop() { s.Store.Drop(); s.onDrop() }

func (d *nodeDBs) producer() abft.EpochDBProducer {
	return func(epoch idx.Epoch) kvdb.Store {
		e := uint32(epoch)
		if s, ok := d.epochs[e]; ok {
			return s
		}
		var s kvdb.Store
		s = &dropTrackingStore{Store: memorydb.New(), onDrop: func() { delete(d.epochs, e) }}
		d.epochs[e] = s
		return s
	}
}

type cacheCfg struct {
	rootsNum    uint
	rootsFrames int
	fcPairs     int
	hbSize      uint
	laSize      uint
}

// newInstance builds the consensus objects over dbs.  genesis != nil applies it first.
func newInstance(dbs *nodeDBs, cc cacheCfg, crit func(error), src abft.EventSource, genesis *abft.Genesis,
	cb lachesis.ConsensusCallbacks) *Instance {
	store := abft.NewStore(dbs.main, dbs.producer(), crit, abft.StoreConfig{Cache: abft.StoreCacheConfig{RootsNum: cc.rootsNum, RootsFrames: cc.rootsFrames}})
	if genesis != nil {
		if err := store.ApplyGenesis(genesis); err != nil {
			panic(fmt.Sprintf("harness: ApplyGenesis: %v", err))
		}
	}
	index := vecfc.NewIndex(crit, vecfc.IndexConfig{Caches: vecfc.IndexCacheConfig{ForklessCausePairs: cc.fcPairs, HighestBeforeSeqSize: cc.hbSize, LowestAfterSeqSize: cc.laSize}})
	dagi := &adapters.VectorToDagIndexer{Index: index}
	lch := abft.NewIndexedLachesis(store, src, dagi, crit, abft.LiteConfig())
	if err := lch.Bootstrap(cb); err != nil {
		panic(fmt.Sprintf("harness: Bootstrap: %v", err))
	}
	return &Instance{store: store, index: index, dagi: dagi, lch: lch}
}

// ---- abft.EventSource ----

func (n *Node) HasEvent(h hash.Event) bool { _, ok := n.events[h]; return ok }
func (n *Node) GetEvent(h hash.Event) dag.Event {
	if pe, ok := n.events[h]; ok {
		return pe.Ev
	}
	return nil
}

// GetEpochValidators implements epochcheck.Reader over the node's consensus store.
func (n *Node) GetEpochValidators() (*pos.Validators, idx.Epoch) {
	es := n.inst.store.GetEpochState()
	return es.Validators, es.Epoch
}

func (n *Node) epoch() uint32 { return uint32(n.inst.store.GetEpoch()) }

func (n *Node) checkers() *eventcheck.Checkers {
	return &eventcheck.Checkers{Basiccheck: basiccheck.New(), Epochcheck: epochcheck.New(n), Parentscheck: parentscheck.New()}
}

func (n *Node) newBuffer() {
	lim := n.cl.bufLimit
	chk := n.checkers()
	n.buf = dagordering.New(lim, dagordering.Callback{
		Process: func(e dag.Event) error { return n.process(e) },
		Released: func(e dag.Event, peer string, err error) {
			n.cl.onReleased(n, e, peer, err)
		},
		Get: func(h hash.Event) dag.Event {
			if pe, ok := n.events[h]; ok {
				return pe.Ev
			}
			return nil
		},
		Exists: func(h hash.Event) bool { _, ok := n.events[h]; return ok },
		Check: func(e dag.Event, parents dag.Events) error {
			return chk.Validate(e, parents)
		},
	})
}

func (n *Node) callbacks() lachesis.ConsensusCallbacks {
	return lachesis.ConsensusCallbacks{BeginBlock: func(b *lachesis.Block) lachesis.BlockCallbacks {
		return n.cl.beginBlock(n, b)
	}}
}
