package cluster

import (
	"fmt"
	"sort"
	"strings"

	"github.com/Fantom-foundation/lachesis-base/abft"
	"github.com/Fantom-foundation/lachesis-base/emitter/ancestor"
	"github.com/Fantom-foundation/lachesis-base/hash"
	"github.com/Fantom-foundation/lachesis-base/inter/dag"
	"github.com/Fantom-foundation/lachesis-base/inter/idx"
	"github.com/Fantom-foundation/lachesis-base/inter/pos"
	"github.com/Fantom-foundation/lachesis-base/lachesis"

	"verif/ref"
	"verif/sim"
)

type EpochRef struct {
	E         uint32
	ids       []uint32
	weights   []uint64
	RV        *ref.Validators
	PV        *pos.Validators
	D         *ref.DAG
	L         *ref.Lachesis
	sealFrame uint32
	events    []int // G of every pool event of this epoch, by L
}

type knobs struct {
	nVal, spare, observers, personalities int
	weightMode                            int
	weights                               []uint64
	cheaters                              map[uint32]bool
	heavyByz                              bool
	maxParents                            int
	cc                                    cacheCfg
	bufNum, bufSize                       int
	sealFrame                             int
	maxEpochs                             int
	vsetMode                              int
	vsetSeed                              uint64
	events                                int
	dropPm, dupPm, fifoPm                 int
	partitionPm, restartPm, stallPm       int
	activity                              []int
	byzPm, specPm, syncPm                 int
	forkPm, oldParentPm                   int
	deep                                  bool // one long epoch (hundreds of frames), few validators, mild faults
	deepLagNode, deepLagFrom, deepLagTo   int  // a validator that is silent while the others advance > 100 frames
}

type msg struct {
	to, g int
}

type Cluster struct {
	c    *sim.Ctx
	prop string
	on   map[string]bool
	k    knobs

	epochs map[uint32]*EpochRef
	pool   []*PEvent
	byID   map[hash.Event]*PEvent
	nodes  []*Node
	canon  map[string]*BlockRec

	bufLimit dag.Metric

	// generator state (generation mode only)
	inflight  []msg
	partition []int
	emitted   int

	// C14-style monitors on the ordering buffer
	ext *extras
}

func (cl *Cluster) epochRef(e uint32) *EpochRef {
	if er, ok := cl.epochs[e]; ok {
		return er
	}
	var ids []uint32
	var ws []uint64
	if e == 1 {
		for i := 0; i < cl.k.nVal; i++ {
			ids = append(ids, uint32(i+1))
			ws = append(ws, cl.k.weights[i])
		}
	} else {
		prev := cl.epochRef(e - 1)
		ids, ws = cl.mutate(prev, e)
	}
	er := &EpochRef{E: e, ids: ids, weights: ws}
	er.RV = ref.NewValidators(ids, ws)
	b := pos.NewBuilder()
	for i, id := range ids {
		b.Set(idx.ValidatorID(id), pos.Weight(ws[i]))
	}
	er.PV = b.Build()
	er.D = ref.NewDAG(er.RV)
	er.L = ref.NewLachesis(er.D)
	if cl.k.sealFrame > 0 && int(e) < cl.k.maxEpochs {
		er.sealFrame = uint32(cl.k.sealFrame)
	}
	cl.epochs[e] = er
	return er
}

func (cl *Cluster) cheaterShareOK(ids []uint32, ws []uint64) bool {
	var tot, cw uint64
	for i, id := range ids {
		tot += ws[i]
		if cl.k.cheaters[id] {
			cw += ws[i]
		}
	}
	return cl.k.heavyByz || 3*cw < tot
}

// mutate derives the validator set of epoch e from the previous one (pure function of the knobs).
func (cl *Cluster) mutate(prev *EpochRef, e uint32) ([]uint32, []uint64) {
	ids := append([]uint32{}, prev.ids...)
	ws := append([]uint64{}, prev.weights...)
	h := sim.Mix(cl.k.vsetSeed, uint64(e))
	switch cl.k.vsetMode {
	case 1: // re-weighted
		for i := range ws {
			f := 500 + sim.Mix(h, uint64(i))%500
			ws[i] = ws[i]*f/1000 + 1
		}
	case 3: // stake moves between the same validators: same members, same total, another distribution
		if len(ws) >= 2 {
			for round := 0; round < len(ws); round++ {
				a := int(sim.Mix(h, uint64(2*round)) % uint64(len(ws)))
				b := int(sim.Mix(h, uint64(2*round+1)) % uint64(len(ws)))
				if a == b || ws[a] < 2 {
					continue
				}
				d := 1 + sim.Mix(h, uint64(100+round))%(ws[a]-1)
				ws[a] -= d
				ws[b] += d
			}
		}
	case 2: // membership change: drop one (if possible) and/or add a spare id
		if len(ids) > 1 && h%2 == 0 {
			j := int(sim.Mix(h, 7) % uint64(len(ids)))
			ids = append(ids[:j], ids[j+1:]...)
			ws = append(ws[:j], ws[j+1:]...)
		}
		if cl.k.spare > 0 {
			id := uint32(cl.k.nVal + 1 + int(sim.Mix(h, 9)%uint64(cl.k.spare)))
			found := false
			for _, x := range ids {
				if x == id {
					found = true
				}
			}
			if !found {
				ids = append(ids, id)
				ws = append(ws, 1+sim.Mix(h, 11)%4)
			}
		}
	}
	var tot uint64
	for _, w := range ws {
		tot += w
	}
	if tot > 1<<31-1 || !cl.cheaterShareOK(ids, ws) {
		return append([]uint32{}, prev.ids...), append([]uint64{}, prev.weights...)
	}
	return ids, ws
}

// ---- crit / panic containment ----------------------------------------------------------------

// guard runs f, which calls into the library on behalf of node n.
func (cl *Cluster) guard(n *Node, what string, f func()) {
	defer func() {
		if r := recover(); r != nil {
			cp, ok := r.(critPanic)
			if !ok {
				panic(r)
			}
			msg := cp.err.Error()
			if cl.k.heavyByz && strings.Contains(msg, "Byzantine") {
				n.stopped = true
				cl.c.Count("crit_byzantine_tolerated", 1)
				return
			}
			cl.c.Violation("crit", "crit:"+critSig(msg), "node %s: library reported a critical error during %s: %s", n.name, what, msg)
		}
	}()
	f()
}

func critSig(msg string) string {
	// keep only the leading words: ids and numbers vary
	f := strings.FieldsFunc(msg, func(r rune) bool { return r == '(' || r == '=' || r == ':' })
	if len(f) == 0 {
		return "?"
	}
	s := strings.TrimSpace(f[0])
	if len(s) > 60 {
		s = s[:60]
	}
	return s
}

// ---- node lifecycle --------------------------------------------------------------------------

func (cl *Cluster) addNode(val uint32, name string) *Node {
	n := &Node{cl: cl, id: len(cl.nodes), val: val, name: name, dbs: newDBs(), events: map[hash.Event]*PEvent{},
		has: map[int]bool{}, order: map[uint32][]int{}, lastOwn: -1}
	er := cl.epochRef(1)
	cl.guard(n, "genesis", func() {
		n.inst = newInstance(n.dbs, cl.k.cc, n.critFn, n, &abft.Genesis{Epoch: 1, Validators: er.PV}, n.callbacks())
	})
	n.newBuffer()
	cl.nodes = append(cl.nodes, n)
	cl.ext.onNewInstance(n)
	return n
}

func (cl *Cluster) restart(n *Node) {
	if n.stopped {
		return
	}
	n.restarts++
	n.buildsThisLife = 0
	cl.c.Count("restarts", 1)
	n.inst = nil
	cl.guard(n, "restart", func() {
		n.inst = newInstance(n.dbs, cl.k.cc, n.critFn, n, nil, n.callbacks())
	})
	n.newBuffer()
	cl.ext.onNewInstance(n)
}

// resetTo: node n abandons its epoch and jumps (Reset) to the epoch node m is in.
func (cl *Cluster) resetTo(n, m *Node) {
	if n.stopped || m.stopped || m.epoch() <= n.epoch() {
		return
	}
	e := m.epoch()
	var err error
	cl.guard(n, "Reset", func() { err = n.inst.lch.Reset(idx.Epoch(e), cl.epochRef(e).PV) })
	if err != nil {
		cl.c.Violation("reset-error", "reset-error", "node %s: Reset(%d) returned %v", n.name, e, err)
	}
	cl.c.Count("resets", 1)
	n.resetFrom = e
	n.newBuffer()
	cl.ext.onNewInstance(n)
	if cl.on["seal"] {
		st := n.inst.store
		if uint32(st.GetEpoch()) != e || st.GetLastDecidedFrame() != 0 || st.GetValidators().String() != cl.epochRef(e).PV.String() || len(st.GetFrameRoots(1)) != 0 {
			cl.c.Violation("seal", "seal/reset-state", "node %s: after Reset(%d): epoch=%d decided=%d validators=%s roots(1)=%d", n.name, e, st.GetEpoch(), st.GetLastDecidedFrame(), st.GetValidators(), len(st.GetFrameRoots(1)))
		}
	}
}

// ---- block callbacks -------------------------------------------------------------------------

func (cl *Cluster) beginBlock(n *Node, b *lachesis.Block) lachesis.BlockCallbacks {
	st := n.inst.store
	epoch := uint32(st.GetEpoch())
	frame := uint32(st.GetLastDecidedFrame()) + 1
	rec := &BlockRec{Epoch: epoch, Frame: frame, Atropos: -1}
	if pe, ok := cl.byID[b.Atropos]; ok {
		rec.Atropos = pe.G
	}
	for _, ch := range b.Cheaters {
		rec.Cheaters = append(rec.Cheaters, uint32(ch))
	}
	rec.kept = b.Cheaters
	n.cur = rec
	cl.ext.onBeginBlock(n, rec, b)
	return lachesis.BlockCallbacks{
		ApplyEvent: func(e dag.Event) {
			g := -1
			if pe, ok := cl.byID[e.ID()]; ok {
				g = pe.G
			}
			rec.Applied = append(rec.Applied, g)
		},
		EndBlock: func() *pos.Validators {
			er := cl.epochRef(epoch)
			var next *pos.Validators
			if er.sealFrame != 0 && frame == er.sealFrame {
				rec.Sealed = true
				next = cl.epochRef(epoch + 1).PV
			}
			n.blocks = append(n.blocks, rec)
			n.cur = nil
			cl.c.Count("blocks", 1)
			cl.onBlock(n, rec)
			return next
		},
	}
}

// ---- processing ------------------------------------------------------------------------------

// process is the ordering buffer's Process callback of node n.
func (n *Node) process(e dag.Event) error {
	cl := n.cl
	pe := cl.byID[e.ID()]
	if pe == nil {
		panic("harness: unknown event reached Process")
	}
	before := len(n.blocks)
	epochBefore := n.epoch()
	n.events[e.ID()] = pe
	var err error
	cl.ext.beforeProcess(n, pe)
	n.inProcess = true
	cl.guard(n, "Process", func() { err = n.inst.lch.Process(e) })
	n.inProcess = false
	if n.stopped {
		delete(n.events, e.ID())
		return fmt.Errorf("instance stopped")
	}
	cl.c.Count("process_calls", 1)
	es := ""
	if err != nil {
		es = err.Error()
		delete(n.events, e.ID())
		cl.c.Count("process_rejected", 1)
	} else {
		n.has[pe.G] = true
		n.order[pe.Epoch] = append(n.order[pe.Epoch], pe.G)
	}
	n.calls = append(n.calls, procCall{pe.G, es})
	cl.afterProcess(n, pe, err, before, epochBefore)
	return err
}

func (cl *Cluster) onReleased(n *Node, e dag.Event, peer string, err error) {
	cl.ext.onReleased(n, e, peer, err)
}

// push hands an event to node n's ordering buffer.
func (cl *Cluster) push(n *Node, pe *PEvent, peer string) {
	if n.stopped || n.has[pe.G] {
		return
	}
	cl.ext.onPush(n, pe, peer)
	n.buf.PushEvent(pe.Ev, peer)
	cl.ext.afterPush(n)
}

// ---- event creation --------------------------------------------------------------------------

type candidate struct {
	node    *Node
	er      *EpochRef
	seq     uint32
	lamport uint32
	parents hash.Events
	pl      []int // parents as L indices
}

func (cl *Cluster) candidate(n *Node, sp int, others []int) (*candidate, bool) {
	if n.stopped || n.val == 0 {
		return nil, false
	}
	epoch := n.epoch()
	er := cl.epochRef(epoch)
	if er.RV.Pos(n.val) < 0 {
		return nil, false
	}
	cd := &candidate{node: n, er: er, seq: 1}
	seen := map[int]bool{}
	add := func(g int, self bool) bool {
		if g < 0 || g >= len(cl.pool) || seen[g] {
			return false
		}
		pe := cl.pool[g]
		if pe.Epoch != epoch || !n.has[g] {
			return false
		}
		if self != (uint32(pe.Ev.Creator()) == n.val) {
			return false
		}
		seen[g] = true
		cd.parents = append(cd.parents, pe.Ev.ID())
		cd.pl = append(cd.pl, pe.L)
		if uint32(pe.Ev.Lamport()) > cd.lamport {
			cd.lamport = uint32(pe.Ev.Lamport())
		}
		if self {
			cd.seq = uint32(pe.Ev.Seq()) + 1
		}
		return true
	}
	if sp >= 0 && !add(sp, true) {
		return nil, false
	}
	for _, g := range others {
		add(g, false)
	}
	cd.lamport++
	return cd, true
}

func (cd *candidate) mutable() *dag.MutableBaseEvent {
	me := &dag.MutableBaseEvent{}
	me.SetEpoch(idx.Epoch(cd.er.E))
	me.SetSeq(idx.Event(cd.seq))
	me.SetCreator(idx.ValidatorID(cd.node.val))
	me.SetLamport(idx.Lamport(cd.lamport))
	me.SetParents(cd.parents)
	return me
}

// build calls the real Build for the candidate and returns the assigned frame.
func (cl *Cluster) build(cd *candidate) (uint32, bool) {
	me := cd.mutable()
	var err error
	cl.guard(cd.node, "Build", func() { err = cd.node.inst.lch.Build(me) })
	if cd.node.stopped {
		return 0, false
	}
	if err != nil {
		cl.c.Violation("build-error", "build-error", "node %s: Build returned %v for a well-formed candidate", cd.node.name, err)
	}
	cl.c.Count("builds", 1)
	cd.node.buildsThisLife++
	if cd.node.buildsThisLife == 257 {
		cl.c.Probe("instance_with_more_than_256_builds")
	}
	return uint32(me.Frame()), true
}

// emit: node builds, (maybe) lies about the frame, publishes and processes its own event.
func (cl *Cluster) emit(n *Node, kind int, delta int, sp int, others []int) *PEvent {
	cd, ok := cl.candidate(n, sp, others)
	if !ok {
		return nil
	}
	built, ok := cl.build(cd)
	if !ok {
		return nil
	}
	cl.ext.twinBuild(cd, built)
	er := cd.er
	rev := er.D.Add(n.val, cd.seq, cd.lamport, 0, cd.pl)
	lo, hi := er.L.AllowedFrames(rev.I)
	if want := ref.BuildFrame(lo, hi); cl.on["frame"] && built != want {
		cl.c.Violation("build-frame", "build-frame", "node %s: Build assigned frame %d to %s but the highest allowed frame (at most 100 above the self-parent's) is %d (allowed %d..%d)",
			n.name, built, cl.descCand(cd), want, lo, hi)
	}
	if hi > lo+ref.MaxFrameJump {
		cl.c.Probe("build_capped_100_frames_above_self_parent")
	}
	claimed := built
	if kind == 1 {
		cf := int(built) + delta
		if cf < 1 {
			cf = 1
		}
		claimed = uint32(cf)
	}
	rev.Frame = claimed
	valid := claimed >= lo && claimed <= hi
	if valid {
		er.L.Register(rev.I)
		if sp >= 0 && claimed > lo+ref.MaxFrameJump {
			cl.c.Probe("valid_claim_more_than_100_frames_above_self_parent")
		}
	}
	me := cd.mutable()
	me.SetFrame(idx.Frame(claimed))
	g := len(cl.pool)
	ev := me.Build(eventID(er.E, n.val, cd.seq, cd.lamport, claimed, cd.parents, uint32(g)))
	pe := &PEvent{G: g, Epoch: er.E, L: rev.I, Ev: ev, Valid: valid, By: n.id}
	cl.pool = append(cl.pool, pe)
	cl.byID[ev.ID()] = pe
	er.events = append(er.events, g)
	cl.c.Count("events_emitted", 1)
	if !valid {
		cl.c.Count("byzantine_invalid_frame", 1)
	} else if claimed != built {
		cl.c.Count("byzantine_lower_allowed_frame", 1)
	}
	if cd.seq > 1 || sp < 0 {
		// fork statistics: another event with the same creator and seq exists
		for _, og := range er.events {
			o := cl.pool[og]
			if o.G != g && o.Valid && uint32(o.Ev.Creator()) == n.val && uint32(o.Ev.Seq()) == cd.seq {
				cl.c.Count("fork_events", 1)
				break
			}
		}
	}
	cl.push(n, pe, "self")
	if n.has[g] {
		n.lastOwn = g
	}
	cl.broadcast(pe)
	return pe
}

func (cl *Cluster) descCand(cd *candidate) string {
	return fmt.Sprintf("{epoch %d creator %d seq %d lamport %d parents(L) %v}", cd.er.E, cd.node.val, cd.seq, cd.lamport, cd.pl)
}

func (cl *Cluster) descEv(pe *PEvent) string {
	return fmt.Sprintf("#%d{epoch %d creator %d seq %d frame %d parents %v valid=%v}", pe.G, pe.Epoch, pe.Ev.Creator(), pe.Ev.Seq(), pe.Ev.Frame(), cl.parentsG(pe), pe.Valid)
}

func (cl *Cluster) parentsG(pe *PEvent) []int {
	var r []int
	for _, p := range pe.Ev.Parents() {
		r = append(r, cl.byID[p].G)
	}
	return r
}

// specBuild builds a candidate `count` times and discards it.
func (cl *Cluster) specBuild(n *Node, count int, sp int, others []int) {
	cd, ok := cl.candidate(n, sp, others)
	if !ok {
		return
	}
	hi := uint32(0)
	if cl.on["frame"] {
		cd.er.D.Temp(n.val, cd.seq, cd.lamport, cd.pl, func(e int) { lo, h := cd.er.L.AllowedFrames(e); hi = ref.BuildFrame(lo, h) })
	}
	for i := 0; i < count; i++ {
		built, ok := cl.build(cd)
		if !ok {
			return
		}
		cl.c.Count("speculative_builds", 1)
		if cl.on["frame"] && built != hi {
			cl.c.Violation("build-frame", "build-frame/speculative", "node %s: speculative Build #%d assigned frame %d to %s but the highest allowed frame is %d",
				n.name, i+1, built, cl.descCand(cd), hi)
		}
		if i == 0 || i == count-1 {
			cl.ext.twinBuild(cd, built)
		}
	}
}

// ---- anti-entropy ----------------------------------------------------------------------------

func (cl *Cluster) syncFrom(n, m *Node) {
	if n.stopped {
		return
	}
	for rounds := 0; rounds < 8; rounds++ {
		e := n.epoch()
		for _, g := range m.order[e] {
			if n.stopped || n.epoch() != e {
				break
			}
			if !n.has[g] {
				cl.push(n, cl.pool[g], m.name)
			}
		}
		if n.stopped || n.epoch() == e {
			break
		}
	}
}

// ---- helpers for oracles ----------------------------------------------------------------------

func (cl *Cluster) hasL(n *Node, er *EpochRef) func(int) bool {
	return func(l int) bool { return n.has[er.events[l]] }
}

func (n *Node) epochBlocks(e uint32) []*BlockRec {
	var r []*BlockRec
	for _, b := range n.blocks {
		if b.Epoch == e {
			r = append(r, b)
		}
	}
	return r
}

func sortedInts(m map[int]bool) []int {
	var r []int
	for k := range m {
		r = append(r, k)
	}
	sort.Ints(r)
	return r
}

var _ = ancestor.Metric(0)
