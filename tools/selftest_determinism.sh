#!/bin/bash
# Determinism self-test (DESIGN §2.3): for every check, N seeded runs are executed in several fresh
# processes and the canonical per-run logs (trace hash, simulated time, hash of every
# counter/probe/state observation, verdict) are compared.
#  - engines E1, E2, E4: 6 processes x 2 seeds at GOMAXPROCS 1, 4 and 16; logs must be byte-identical.
#  - engine E3 (real goroutines in a synctest bubble): 6 processes x 2 seeds at GOMAXPROCS=1, which
#    is what every worker of bin/check uses.  Go's pick among simultaneously ready select cases
#    is not seedable, so the test counts the runs whose observation line differs between processes
#    and fails when more than 2% do (bin/check re-replays a failing E3 trace several times).
# usage: tools/selftest_determinism.sh [runs-per-process] [checks...]
N=${1:-60}; shift
cd /verif
export GOFLAGS=-mod=mod GOPROXY=off GOSUMDB=off GOTOOLCHAIN=local
checks=${@:-$(python3 -c "import json; c=json.load(open('checks.json')); print(' '.join(sorted(k for k in c if 'reports_as' not in c[k])))")}
bin/setup >/dev/null || exit 2
D=$(mktemp -d /tmp/verif-det-XXXXXX); trap 'rm -rf "$D"' EXIT
bad=0
for p in $checks; do
  read bin test eng < <(python3 -c "import json; c=json.load(open('checks.json'))['$p']; print(c['binary'], c['test'], c['engine'])")
  gmps="1 4 16 1 4 16"; [ "$eng" = "E3-tasks" ] && gmps="1 1 1 1 1 1"
  i=0
  for gmp in $gmps; do
    for seed in 1 7; do
      i=$((i+1))
      mkdir -p $D/$p/$i
      ( cd $D/$p/$i && env GOMAXPROCS=$gmp GODEBUG=asyncpreemptoff=1 VERIF_SEED=$seed VERIF_WORKER=3 VERIF_MAXRUNS=$N VERIF_BUDGET_S=600 VERIF_OUT=$D/$p/$i VERIF_KNOWN=/verif/known_findings.jsonl \
          VERIF_DETLOG=$D/$p/log.$seed.$i GORACE="halt_on_error=0 log_path=$D/$p/$i/race suppress_equal_stacks=0 suppress_equal_addresses=0" \
          /verif/build/$bin -test.run "^$test\$" -test.timeout 0 >/dev/null 2>&1 ) &
    done
    wait
  done
  python3 - "$D/$p" "$N" "$p" "$eng" <<'PY' || bad=1
import sys, glob
d, n, p, eng = sys.argv[1], int(sys.argv[2]), sys.argv[3], sys.argv[4]
tot = diff = 0
for seed in (1, 7):
    logs = [open(f).read().splitlines()[:n] for f in sorted(glob.glob("%s/log.%d.*" % (d, seed)))]
    if len(logs) < 6 or min(len(l) for l in logs) == 0:
        print("%s: INFRA no logs for seed %d" % (p, seed)); sys.exit(1)
    m = min(len(l) for l in logs)
    tot += m
    diff += sum(1 for i in range(m) if len(set(l[i] for l in logs)) > 1)
if eng == "E3-tasks":
    ok = diff * 50 <= tot
    print("%s: %s (%d of %d runs differ between 6 processes x 2 seeds at GOMAXPROCS=1; residual select choice, limit 2%%)" % (p, "ok" if ok else "DIVERGED", diff, tot))
else:
    ok = diff == 0
    print("%s: %s (%d runs x 6 processes x 2 seeds, GOMAXPROCS 1/4/16, %d differ)" % (p, "ok" if ok else "DIVERGED", tot // 2, diff))
sys.exit(0 if ok else 1)
PY
done
exit $bad
