#!/bin/bash
# Determinism self-test (DESIGN §2.3): for every check, N seeded runs are executed in several fresh
# processes at GOMAXPROCS 1, 4 and 16 and the canonical per-run logs (trace hash, simulated time,
# hash of every counter/probe/state observation, verdict) are compared byte for byte.
# usage: tools/selftest_determinism.sh [runs-per-process] [checks...]
N=${1:-60}; shift
cd /verif
export GOFLAGS=-mod=mod GOPROXY=off GOSUMDB=off GOTOOLCHAIN=local
checks=${@:-$(python3 -c "import json; print(' '.join(sorted(json.load(open('checks.json')))))")}
bin/setup >/dev/null || exit 2
D=$(mktemp -d /tmp/verif-det-XXXXXX); trap 'rm -rf "$D"' EXIT
bad=0
for p in $checks; do
  read bin test race < <(python3 -c "import json; c=json.load(open('checks.json'))['$p']; print(c['binary'], c['test'], int(bool(c.get('race'))))")
  i=0
  for gmp in 1 4 16 1 4 16; do
    for seed in 1 7; do
      i=$((i+1))
      mkdir -p $D/$p/$i
      ( cd $D/$p/$i && env GOMAXPROCS=$gmp GODEBUG=asyncpreemptoff=1 VERIF_SEED=$seed VERIF_WORKER=3 VERIF_MAXRUNS=$N VERIF_BUDGET_S=600 VERIF_OUT=$D/$p/$i VERIF_KNOWN=/verif/known_findings.jsonl \
          VERIF_DETLOG=$D/$p/log.$seed.$i GORACE="halt_on_error=0 log_path=$D/$p/$i/race suppress_equal_stacks=0 suppress_equal_addresses=0" \
          /verif/build/$bin -test.run "^$test\$" -test.timeout 0 >/dev/null 2>&1 ) &
    done
    wait
  done
  res=ok
  for seed in 1 7; do
    first=""
    for f in $D/$p/log.$seed.*; do
      if [ -z "$first" ]; then first=$f; continue; fi
      if ! cmp -s <(head -$N $first) <(head -$N $f); then res="DIVERGED(seed $seed: $(basename $first) vs $(basename $f))"; bad=1; cp $first /tmp/det-$p-a.log; cp $f /tmp/det-$p-b.log; fi
    done
  done
  lines=$(head -$N $D/$p/log.1.1 2>/dev/null | wc -l)
  echo "$p: $res ($lines runs x 6 processes x 2 seeds, GOMAXPROCS 1/4/16)"
done
exit $bad
