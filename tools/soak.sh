#!/bin/bash
# Seed sweep: every check at the given tier for several VERIF_SEED values; prints one line per check and seed.
# usage: [PROPS="C14 C15"] tools/soak.sh <tier> <seed>...
tier=$1; shift
cd "$(dirname "$0")/.."
for seed in "$@"; do
  for p in ${PROPS:-$(python3 -c "import json; c=json.load(open('checks.json')); print(' '.join(sorted(k for k in c if 'reports_as' not in c[k])))")}; do
    s=$(date +%s)
    out=$(VERIF_SEED=$seed bin/check $p --tier $tier --no-evidence 2>&1); rc=$?
    echo "seed=$seed $p rc=$rc $(( $(date +%s)-s ))s $(echo "$out" | grep '^VIOLATION\|^INFRA\|^violation' | head -3 | cut -c1-200 | tr '\n' ' ')"
    if [ $rc -ne 0 ]; then echo "---- full output (tail) of seed=$seed $p ----"; echo "$out" | grep -v '^faults\|^probes' | tail -n 60 | cut -c1-1200; echo "----"; fi
  done
done
