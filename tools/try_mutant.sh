#!/bin/bash
# usage: tools/try_mutant.sh <patch.diff> <PROP> [budget_s] [workers]
# Tries a seeded change without touching /repo: a detached scratch worktree of /repo's HEAD gets the
# patch, the check is built against it (VERIF_REPO) into a private build directory, and both are
# removed again.  (Confirmation runs for seeded/<id>/meta.json use confirm_mutant.sh, which applies the
# change to /repo itself as the brief prescribes.)
set -u
patch=$(readlink -f "$1"); prop=$2; budget=${3:-30}; workers=${4:-16}
W=$(mktemp -d /tmp/verif-mut-XXXXXX); rmdir "$W"
git -C /repo worktree add -q --detach "$W" HEAD || exit 2
trap 'git -C /repo worktree remove --force "$W" >/dev/null 2>&1; rm -rf "$W"' EXIT
git -C "$W" apply "$patch" || { echo "patch does not apply"; exit 2; }
cd /verif
VERIF_REPO="$W" bin/check "$prop" --budget "$budget" --workers "$workers" --no-evidence 2>&1 | grep -v "^faults\|^probes" | cut -c1-600 | tail -${TAIL:-12}
rc=${PIPESTATUS[0]}
echo "exit=$rc"
