#!/bin/bash
# usage: tools/try_mutant.sh <patch.diff> <PROP> [budget_s] [workers]   — applies a seeded change to /repo, runs the check, reverts.
set -u
patch=$1; prop=$2; budget=${3:-30}; workers=${4:-16}
cd /repo || exit 2
if ! git diff --quiet; then echo "REPO DIRTY - refusing"; exit 2; fi
git apply "$patch" || { echo "patch does not apply"; exit 2; }
cd /verif
bin/check "$prop" --budget "$budget" --workers "$workers" --no-evidence 2>&1 | grep -v "^faults\|^probes" | cut -c1-600 | tail -${TAIL:-12}
rc=${PIPESTATUS[0]}
git -C /repo checkout -- .
echo "exit=$rc"
