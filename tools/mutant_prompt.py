#!/usr/bin/env python3
"""Prints the prompt given to a fresh sub-agent that must break one property (no /verif knowledge)."""
import json, sys, glob
pid = sys.argv[1]
wt = sys.argv[2]
outdir = sys.argv[3]
p = None
for l in open('/verif/properties.jsonl'):
    q = json.loads(l)
    if q['id'] == pid:
        p = q
avoid = ""
titles = []
for d in sorted(glob.glob('/verif/seeded/%s*-*' % pid)):
    try:
        titles.append(json.load(open(d + '/meta.json')).get('title', ''))
    except Exception:
        pass
if titles:
    avoid = "\nAVOID repeating these changes, which other people already made for this property (pick different mechanisms and, if possible, different files):\n" + "\n".join("  - " + t for t in titles if t) + "\n"
suffix = sys.argv[4] if len(sys.argv) > 4 else ""
print(f"""You are helping to evaluate a verification tool by producing realistic faulty variants ("seeded changes") of a Go library.

The library is lachesis-base (Fantom's Lachesis aBFT DAG consensus: frame/root election, vector-clock forkless-cause index, gossip event ordering/fetching/streaming, flushable multi-DB key-value layer). You have your own scratch git worktree of it at {wt} (work ONLY there; never touch /repo or /verif, never read anything under /verif).

Every shell call needs: export GOFLAGS=-mod=mod GOPROXY=off GOSUMDB=off GOTOOLCHAIN=local   (the sandbox has no network).
The existing test suite is run with:  cd {wt} && go test -vet=off -count=1 ./...   (about 40-70 s; all packages pass on the unchanged tree).

The property of the library that your change must BREAK:

  Title: {p['title']}
  Statement: {p['statement']}
  Quantified over: {p['quantifier']['text']}
  Code it is anchored in: {', '.join(p['anchors']['files'])}

{avoid}
Task: produce TWO different changes (different mechanism / different place) to the library's non-test source, each of which
  (a) still compiles, and the whole existing test suite still passes with it (run it and confirm — all packages),
  (b) makes the property false for some inputs / schedules / histories / crash points,
  (c) is realistic (an off-by-one, a dropped or misplaced call, a wrong comparison, a stale cache, a missing lock or reset, an ordering of two writes, a boundary case ...) — the kind of regression a refactoring or an "optimisation" could introduce,
  (d) needs something SPECIFIC to manifest: a particular interleaving, a crash or fault at a particular point, a multi-step sequence of operations, an unusual input (forks, particular weights, a specific cache size, boundary keys ...), or two cooperating sites that each look fine alone. NOT something ordinary use exposes at once (if nearly every run of the library would misbehave, it is too easy — make it subtler).
  Do not change test files, do not change public API signatures, do not add dependencies.

For each change i in {{1,2}} deliver, under {outdir}/{pid}{suffix}-i/ :
  - patch.diff : `git diff` of the change against the worktree's HEAD (library source only; must apply with `git apply` to a clean checkout)
  - a demonstration: a Go test file (demo_test.go, note in meta which package directory it must be copied into) or a small program, that FAILS (or prints a clear wrong result) with the change applied and PASSES without it. Confirm both directions yourself by running it.
  - meta.json : {{"property":"{pid}","title": short name of the change,"what_breaks": one paragraph,"needs_to_manifest": what specific condition triggers it,"demo": how to run the demonstration (exact commands, which dir the test file goes to),"suite_passes": true/false as you observed}}
Between the two changes, restore the worktree (git -C {wt} checkout -- . ; remove untracked demo files) so each patch is independent and relative to HEAD. Leave the worktree clean (HEAD, no changes) when done. NEVER use `git stash` (the stash is shared between all worktrees of the repository and other people work in sibling worktrees): use `git diff > file`, `git apply`, `git apply -R` and `git checkout -- .` instead.

Final answer: a short summary of the two changes (file, what changed, what it needs to manifest, and that you verified suite-pass + demo-fail/demo-pass). Keep it brief.""")
