#!/bin/bash
# Runs every seeded change against the check that is recorded as catching it (seeded/<id>/meta.json:
# detected_by.check) at the quick budget, two at a time with 8 workers each, on scratch worktrees
# (tools/try_mutant.sh).  Prints one line per change; exit 1 if a change recorded as caught is missed.
# usage: tools/regress_mutants.sh [budget_s] [ids...]
cd "$(dirname "$0")/.."
budget=${1:-40}; shift
ids=${@:-$(ls seeded)}
one() {
  id=$1
  chk=$(python3 -c "import json; m=json.load(open('seeded/$id/meta.json')); print((m.get('detected_by') or {}).get('check') or '-')")
  neutral=$(python3 -c "import json; m=json.load(open('seeded/$id/meta.json')); print(1 if m.get('neutralised_by') or 'neutralised' in json.dumps(m.get('detected_by') or {}) else 0)")
  if [ "$chk" = "-" ]; then echo "$id: no check recorded"; return; fi
  out=$(tools/try_mutant.sh seeded/$id/patch.diff $chk $budget 8 2>&1)
  rc=$(echo "$out" | grep -a '^exit=' | tail -n 1 | cut -d= -f2)
  [ -z "$rc" ] && rc="2(patch does not apply?)"
  echo "$id: check=$chk exit=$rc neutralised=$neutral $(echo "$out" | grep -a '^violation' | head -1 | cut -c1-100)"
}
export -f one
export budget
printf "%s\n" $ids | xargs -P 2 -I{} bash -c 'one {}' | tee /tmp/regress-mutants.log
missed=$(grep -c "exit=0 neutralised=0" /tmp/regress-mutants.log)
echo "missed: $missed"
[ "$missed" = "0" ]
