#!/bin/bash
# Sensitivity self-test (DESIGN §2.4): every confirmed seeded change under /verif/seeded is applied to
# /repo (which must be clean), its property's check is run with the given budget, the exit status must
# be 1 (VIOLATION); the change is reverted straight afterwards.  C14-1 is expected to stay silent
# (neutralised by fix bcce00e, see seeded/C14-1/meta.json).
# The check is the one recorded in seeded/<id>/meta.json (detected_by.check).  Do not run it while a soak
# (vp run) is using /repo; tools/regress_mutants.sh does the same on scratch worktrees.
# usage: tools/selftest_sensitivity.sh [budget_s] [ids...]
B=${1:-25}; shift
cd /verif
ids=${@:-$(ls seeded | grep -v RESULTS)}
git -C /repo diff --quiet || { echo "/repo has uncommitted changes: refusing"; exit 2; }
miss=0
for m in $ids; do
  p=$(python3 -c "import json; m=json.load(open('seeded/$m/meta.json')); print((m.get('detected_by') or {}).get('check') or m.get('property'))")
  if ! git -C /repo apply --check seeded/$m/patch.diff 2>/dev/null; then echo "$m: patch does not apply to the current tree"; continue; fi
  git -C /repo apply seeded/$m/patch.diff
  s=$(date +%s)
  out=$(bin/check $p --budget $B --no-evidence 2>&1); rc=$?
  git -C /repo checkout -- .
  sig=$(echo "$out" | grep -m1 '^violation class' | cut -c1-120)
  echo "$m: exit=$rc $(( $(date +%s)-s ))s $sig"
  if [ $rc -ne 1 ] && [ "$m" != "C14-1" ]; then miss=$((miss+1)); fi
done
echo "missed: $miss"
exit $miss
