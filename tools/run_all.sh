#!/bin/bash
# Runs every registered check (quick tier by default) on /repo as it is and prints one line per check.
tier=${1:-quick}
cd /verif
for p in $(python3 -c "import json; c=json.load(open('checks.json')); print(' '.join(sorted(k for k in c if 'reports_as' not in c[k])))"); do
  s=$(date +%s)
  out=$(bin/check $p --tier $tier 2>&1); rc=$?
  e=$(date +%s)
  echo "$p rc=$rc $((e-s))s $(echo "$out" | grep -c '^KNOWN-FINDING') known  $(echo "$out" | grep '^VIOLATION\|^INFRA' | head -2 | tr '\n' ' ')"
done
