#!/bin/bash
# usage: tools/confirm_mutant.sh <mutant-dir> [pkgdir] [run-regex]
# Confirms in a fresh scratch worktree: demo passes on HEAD, fails with the patch, existing suite passes with the patch.
# On success copies the mutant to /verif/seeded/<name>/ (patch.diff, demo, meta.json + confirmation record).
set -u
export GOFLAGS=-mod=mod GOPROXY=off GOSUMDB=off GOTOOLCHAIN=local
d=$1; name=$(basename $d)
meta=$d/meta.json
pkg=${2:-}; run=${3:-}
if [ -z "$pkg" ]; then pkg=$(grep -o '\./[a-z/]*/' $meta | head -1 | sed 's#^\./##; s#/$##'); fi
if [ -z "$pkg" ]; then pkg=$(grep -o 'into [^ ]*/\(abft\|vecfc\|vecengine\|kvdb/[a-z]*\|gossip/[a-z/]*\|utils/[a-z]*\|emitter/[a-z]*\)' $meta | head -1 | sed 's#.*/\(abft\|vecfc\|vecengine\|kvdb/.*\|gossip/.*\|utils/.*\|emitter/.*\)$#\1#'); fi
if [ -z "$run" ]; then run=$(grep -o -- '-run[ =][A-Za-z0-9_|^$]*' $meta | head -1 | sed 's/-run[ =]//'); fi
demo=$(ls $d/*_test.go 2>/dev/null | head -1)
[ -z "$demo" ] && { echo "$name: no demo test file"; exit 2; }
[ -z "$pkg" ] && pkg=$(head -5 $demo | grep -o '^package [a-z]*' | awk '{print $2}')
[ -z "$run" ] && run=$(grep -o '^func Test[A-Za-z0-9_]*' $demo | head -1 | sed 's/func //')
wt=/tmp/wt/confirm-$name-$$
git -C /repo worktree add --detach $wt HEAD >/dev/null 2>&1 || { echo "worktree failed"; exit 2; }
cleanup() { git -C /repo worktree remove --force $wt >/dev/null 2>&1; }
trap cleanup EXIT
cp $demo $wt/$pkg/zz_demo_test.go
( cd $wt && go test -vet=off -count=1 -run "$run" ./$pkg/ ) > /tmp/confirm-$name-base.log 2>&1; base=$?
( cd $wt && git apply $d/patch.diff ) || { echo "$name: patch does not apply"; exit 2; }
( cd $wt && go test -vet=off -count=1 -run "$run" ./$pkg/ ) > /tmp/confirm-$name-mut.log 2>&1; mut=$?
rm $wt/$pkg/zz_demo_test.go
( cd $wt && go test -vet=off -count=1 ./... ) > /tmp/confirm-$name-suite.log 2>&1; suite=$?
echo "$name: pkg=$pkg run=$run demo_on_head=$base demo_with_patch=$mut suite_with_patch=$suite"
if [ $base -eq 0 ] && [ $mut -ne 0 ] && [ $suite -eq 0 ]; then
  mkdir -p /verif/seeded/$name
  cp $d/patch.diff /verif/seeded/$name/patch.diff
  cp $demo /verif/seeded/$name/demo_test.go
  python3 - "$meta" "$name" "$pkg" "$run" <<'PY'
import json,sys,os
meta,name,pkg,run=sys.argv[1:5]
m=json.load(open(meta)) if os.path.exists(meta) else {}
m['confirmed']={'demo_passes_on_head':True,'demo_fails_with_patch':True,'existing_suite_passes_with_patch':True,
  'how':'fresh scratch worktree of /repo HEAD; go test -vet=off -count=1 -run %s ./%s/ before and after git apply patch.diff; then go test -vet=off -count=1 ./... with the patch'%(run,pkg),
  'demo_package_dir':pkg,'demo_run':run}
json.dump(m,open('/verif/seeded/%s/meta.json'%name,'w'),indent=1)
PY
  echo "$name: CONFIRMED -> /verif/seeded/$name"
else
  echo "$name: NOT CONFIRMED (see /tmp/confirm-$name-*.log)"
fi
