#!/usr/bin/env python3
"""Generates /verif/MANIFEST.json from checks.json (single source of truth for the driver) plus the
per-property level texts below.  Run after every change to checks.json."""
import json, os

V = os.path.dirname(os.path.dirname(os.path.abspath(__file__)))
checks = json.load(open(os.path.join(V, "checks.json")))

NA = {
    "C11": "quorum arithmetic is a pure function of the validator set (quantifier: all totals / counting sequences = inputs); no schedule, clock, fault or shared state for a simulator to own (DESIGN §6)",
    "C12": "canonical order / RLP round trip / big-stake scaling are pure constructions over their inputs; nothing to simulate (DESIGN §6)",
    "C13": "event checkers are stateless predicates over one event and its parents; pure input space (DESIGN §6)",
    "C19": "parent selection is a pure function of its argument lists and strategies; its only internal nondeterminism (map order in EventsSet.Slice) cannot affect well-formedness (DESIGN §6)",
    "C21": "the double-sign guard takes Now as an explicit field and never reads a clock; pure function of timestamps (DESIGN §6)",
    "C31": "piecewise-linear interpolation is pure integer arithmetic (DESIGN §6)",
    "C32": "index encodings are pure codecs (DESIGN §6)",
}

TEXT = json.load(open(os.path.join(V, "tools", "level_texts.json")))

man = {
    "version": 1,
    "setup_cmd": "cd /verif && bin/setup",
    "hooks": {
        "guard": "verif",
        "enable": "go build/test -tags verif (the driver passes -tags verif to every build of /repo)",
        "baseline_off_cmd": "cd /repo && GOFLAGS=-mod=mod GOPROXY=off GOSUMDB=off GOTOOLCHAIN=local go test -json -vet=off -count=1 -timeout 25m ./...",
        "source_commits": json.load(open(os.path.join(V, "tools", "hook_commits.json"))),
        "add_only": True,
    },
    "engines": [
        {"name": "E1-cluster", "path": "cluster/", "serves_properties": ["C01", "C02", "C03", "C04", "C05", "C06", "C07", "C08", "C09", "C10", "C20", "C33"],
         "kind_free_text": "single-threaded discrete-event simulation of a network of real consensus instances with simulated transport, Byzantine emitters, crashes, epoch seals; independent reference DAG/Lachesis as oracle"},
        {"name": "E2-storage", "path": "kvsim/", "serves_properties": ["C14", "C22", "C23", "C24", "C25", "C26", "C27"],
         "kind_free_text": "operation histories from several simulated clients over the real kvdb wrappers on a recording simulated disk; crash = every prefix of the durable log; reference KV/pool/route/refcount/buffer models"},
        {"name": "E3-tasks", "path": "tasksim/", "serves_properties": ["C15", "C16", "C17", "C18", "C30"],
         "kind_free_text": "real goroutine/timer components inside testing/synctest bubbles (go1.26.8 fake clock + quiescence), stimuli pre-drawn with unique fake timestamps"},
        {"name": "E4-interleave", "path": "interleave/", "serves_properties": ["C28", "C29", "C26"],
         "kind_free_text": "scratch-copy rewrite of sync/time primitives to a controlled scheduler; one task runs at a time, schedule drawn from the seed; -race with happens-before-transparent hand-off; porcupine linearizability"},
    ],
    "checks": [],
    "not_applicable": [],
    "notes": "Every check is `bin/check <id>`: builds the engine's test binary from /repo's working tree, fans out seeded worker processes, aggregates statistics into evidence/<id>.json, replays any failure from its JSON trace in a fresh process before printing VIOLATION. Exit 2 = infrastructure trouble, never a violation. known_findings.jsonl lists recorded/fixed defects.",
}
for pid in sorted(checks):
    c = checks[pid]
    if "reports_as" in c:  # a stage of another check, run by that check's command
        continue
    t = TEXT.get(pid, {})
    man["checks"].append({
        "property_id": pid,
        "quick_cmd": "bin/check %s --tier quick" % pid,
        "thorough_cmd": "bin/check %s --tier thorough" % pid,
        "evidence_file": "/verif/evidence/%s.json" % pid,
        "replay_cmd_template": "bin/check %s --replay {path}" % pid,
        "engine": c["engine"],
        "level_claimed": {"category": c["level"], "text": t.get("text", ""), "design_ref": t.get("design_ref", "DESIGN.md §5 " + pid)},
        "level_note": t.get("note", ""),
        "technique": t.get("technique", "deterministic simulation with fault injection: seeded search over schedules and fault sequences, reference-model oracle, replayable minimised trace"),
    })
claimed = set(k for k in checks if "reports_as" not in checks[k])
props = [json.loads(l)["id"] for l in open(os.path.join(V, "properties.jsonl"))]
for pid in props:
    if pid not in claimed:
        man["not_applicable"].append({"property_id": pid, "reason": NA.get(pid, "not yet covered by a check (machinery under construction)")})
json.dump(man, open(os.path.join(V, "MANIFEST.json"), "w"), indent=1)
print("MANIFEST.json: %d checks, %d not applicable" % (len(man["checks"]), len(man["not_applicable"])))
