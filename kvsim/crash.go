package kvsim

import (
	"bytes"
	"fmt"
	"sort"

	"github.com/Fantom-foundation/lachesis-base/kvdb"
	"github.com/Fantom-foundation/lachesis-base/kvdb/flaggedproducer"
	"github.com/Fantom-foundation/lachesis-base/kvdb/flushable"

	"verif/sim"
)

// ---- C25: multi-database flushes are crash consistent -------------------------------------------

var flushKey = []byte{0xf0, 'f', 'l', 'u', 's', 'h'} // outside the data alphabet

type flushProducer interface {
	kvdb.DBProducer
	Flush(id []byte) error
	Initialize(dbNames []string, flushID []byte) ([]byte, error)
}

func newFlushProducer(kind int, d *Disk) flushProducer {
	if kind == 0 {
		return flushable.NewSyncedPool(d.Producer(), flushKey)
	}
	return flaggedproducer.Wrap(d.Producer(), flushKey)
}

var keyAlphabet = []byte{0x00, 0x01, 0x7f, 0xfe, 0xff}

func genKey(c *sim.Ctx, label string, maxLen int) []byte {
	n := c.Int(label+"_len", 0, maxLen)
	k := make([]byte, n)
	for i := range k {
		k[i] = keyAlphabet[c.Pick(label, len(keyAlphabet))]
	}
	return k
}

func encBytes(b []byte) []int64 {
	r := make([]int64, len(b))
	for i, x := range b {
		r[i] = int64(x)
	}
	return r
}
func decBytes(a []int64) []byte {
	r := make([]byte, len(a))
	for i, x := range a {
		r[i] = byte(x)
	}
	return r
}

type poolModel struct {
	contents map[string]map[string][]byte // live databases as seen through the producer
	queued   map[string]bool              // dropped, executes at next flush (pool) / executed (flagged)
	flushes  map[string]map[string]map[string][]byte
	order    []string
}

func cloneDB(m map[string][]byte) map[string][]byte {
	c := make(map[string][]byte, len(m))
	for k, v := range m {
		c[k] = v
	}
	return c
}

func fmtDB(m map[string][]byte) string {
	var ks []string
	for k := range m {
		ks = append(ks, k)
	}
	sort.Strings(ks)
	s := "{"
	for _, k := range ks {
		s += fmt.Sprintf("%x=%x ", k, m[k])
	}
	return s + "}"
}

// RunCrash is one C25 run: a generated multi-database history, then a restart at EVERY prefix of
// the durable log.
func RunCrash(c *sim.Ctx) {
	kind := int(c.Knob("producer", func() int64 { return int64(c.Pick("producer", 2)) })) // 0 SyncedPool, 1 flaggedproducer
	nNames := int(c.Knob("databases", func() int64 { return int64(c.Int("databases", 1, 4)) }))
	maxOps := 60
	if c.Tier == "thorough" {
		maxOps = 140
	}
	nOps := int(c.Knob("ops", func() int64 { return int64(c.Int("ops", 3, maxOps)) }))
	names := []string{"a", "b", "c", "d"}[:nNames]
	c.ProbeDecl("crash_point_after_drop_entry", "restart_reported_some_flush", "restart_reported_error", "restart_reported_no_flush", "history_with_drop_and_recreate", "batch_object_reused", "batch_object_reused_across_flush", "value_of_40KiB_written", "flush_of_one_database_in_several_batches")

	disk := NewDisk()
	prod := newFlushProducer(kind, disk)
	handles := map[string]kvdb.Store{}
	m := &poolModel{contents: map[string]map[string][]byte{}, queued: map[string]bool{}, flushes: map[string]map[string]map[string][]byte{}}
	flushN := 0
	// logAt[i] = number of durable log entries when flush i was called / returned
	type flushSpan struct {
		id         string
		from, upto int
	}
	var spans []flushSpan
	dropped := map[string]bool{}
	recreated := false
	type keptB struct {
		h      kvdb.Store
		b      kvdb.Batch
		flushN int
	}
	keptBatch := map[string]keptB{}

	bigValues := int(c.Knob("big_values", func() int64 { return int64(c.PickW("big_values", []int{9, 1})) })) == 1
	gen := func() (sim.Op, bool) {
		if len(c.Trace.Ops) >= nOps {
			return sim.Op{}, false
		}
		name := c.Pick("db", nNames)
		switch c.PickW("op", []int{3, 8, 3, 3, 2, 3}) {
		case 0:
			return sim.Op{K: "open", A: []int64{int64(name)}}, true
		case 1:
			k := genKey(c, "key", 2)
			v := genKey(c, "val", 2)
			op := sim.Op{K: "put", A: append([]int64{int64(name), int64(len(k))}, append(encBytes(k), encBytes(v)...)...)}
			if bigValues && c.Chance("big_value", 500) {
				op.S = []string{"big"}
			}
			return op, true
		case 2:
			k := genKey(c, "key", 2)
			return sim.Op{K: "del", A: append([]int64{int64(name)}, encBytes(k)...)}, true
		case 3:
			// batch of 1..3 writes: [name, n, (isdel, klen, k..., vlen, v...)...]
			n := c.Int("batch_n", 1, 3)
			a := []int64{int64(name), int64(n)}
			for i := 0; i < n; i++ {
				k := genKey(c, "key", 2)
				if c.Chance("batch_del", 300) {
					a = append(a, 1, int64(len(k)))
					a = append(a, encBytes(k)...)
				} else {
					v := genKey(c, "val", 2)
					a = append(a, 0, int64(len(k)))
					a = append(a, encBytes(k)...)
					a = append(a, int64(len(v)))
					a = append(a, encBytes(v)...)
				}
			}
			if c.Chance("batch_object_reused", 350) {
				// the application keeps one batch object per database and Reset()s it (also across flushes)
				return sim.Op{K: "batch", A: a, S: []string{"reuse"}}, true
			}
			return sim.Op{K: "batch", A: a}, true
		case 4:
			return sim.Op{K: "drop", A: []int64{int64(name)}}, true
		default:
			return sim.Op{K: "flush"}, true
		}
	}

	ensure := func(name string) kvdb.Store {
		if h, ok := handles[name]; ok {
			return h
		}
		if m.queued[name] {
			return nil // dropped and the drop has not been executed by a flush yet: do not touch
		}
		h, err := prod.OpenDB(name)
		if err != nil {
			c.Violation("open-error", "open-error", "OpenDB(%s): %v", name, err)
		}
		handles[name] = h
		if m.contents[name] == nil {
			m.contents[name] = map[string][]byte{}
			if dropped[name] {
				recreated = true
			}
		}
		return h
	}

	for {
		op, ok := c.Next(gen)
		if !ok {
			break
		}
		c.SimTime(1)
		switch op.K {
		case "open":
			ensure(names[int(op.A[0])%nNames])
		case "put":
			name := names[int(op.A[0])%nNames]
			h := ensure(name)
			if h == nil || len(op.A) < 2 {
				continue
			}
			kl := int(op.A[1])
			if kl < 0 || 2+kl > len(op.A) {
				continue
			}
			k, v := decBytes(op.A[2:2+kl]), decBytes(op.A[2+kl:])
			if len(op.S) > 0 && op.S[0] == "big" {
				// a value of about 40 KiB (derived from the small one): three of them pending in one database make
				// its flush exceed the ideal batch size, so the flush reaches the disk in several batch writes
				big := make([]byte, 40*1024+len(v))
				for i := range big {
					big[i] = byte(i*7) ^ byte(len(v))
				}
				copy(big, v)
				v = big
				c.Probe("value_of_40KiB_written")
			}
			if err := h.Put(k, v); err != nil {
				c.Violation("write-error", "write-error", "Put on %s: %v", name, err)
			}
			m.contents[name][string(k)] = v
			c.Count("puts", 1)
		case "del":
			name := names[int(op.A[0])%nNames]
			h := ensure(name)
			if h == nil {
				continue
			}
			k := decBytes(op.A[1:])
			if err := h.Delete(k); err != nil {
				c.Violation("write-error", "write-error", "Delete on %s: %v", name, err)
			}
			delete(m.contents[name], string(k))
			c.Count("deletes", 1)
		case "batch":
			name := names[int(op.A[0])%nNames]
			h := ensure(name)
			if h == nil {
				continue
			}
			var b kvdb.Batch
			if prev, ok := keptBatch[name]; ok && prev.h == h && len(op.S) > 0 && op.S[0] == "reuse" {
				b = prev.b
				b.Reset()
				c.Probe("batch_object_reused")
				if prev.flushN != flushN {
					c.Probe("batch_object_reused_across_flush")
				}
			} else {
				b = h.NewBatch()
			}
			keptBatch[name] = keptB{h, b, flushN}
			a := op.A[2:]
			type w struct {
				k, v []byte
				del  bool
			}
			var ws []w
			for len(a) >= 2 {
				del, kl := a[0] == 1, int(a[1])
				a = a[2:]
				if kl < 0 || kl > len(a) {
					break
				}
				k := decBytes(a[:kl])
				a = a[kl:]
				if del {
					_ = b.Delete(k)
					ws = append(ws, w{k, nil, true})
					continue
				}
				if len(a) < 1 {
					break
				}
				vl := int(a[0])
				a = a[1:]
				if vl < 0 || vl > len(a) {
					break
				}
				v := decBytes(a[:vl])
				a = a[vl:]
				_ = b.Put(k, v)
				ws = append(ws, w{k, v, false})
			}
			if err := b.Write(); err != nil {
				c.Violation("write-error", "write-error", "batch Write on %s: %v", name, err)
			}
			for _, x := range ws {
				if x.del {
					delete(m.contents[name], string(x.k))
				} else {
					m.contents[name][string(x.k)] = x.v
				}
			}
			c.Count("batches", 1)
		case "drop":
			name := names[int(op.A[0])%nNames]
			h, ok := handles[name]
			if !ok {
				continue
			}
			_ = h.Close()
			h.Drop()
			delete(handles, name)
			dropped[name] = true
			c.Count("drops", 1)
			if kind == 0 {
				m.queued[name] = true // executes at the next flush; invisible until then
			} else {
				delete(m.contents, name)
			}
		case "flush":
			flushN++
			id := []byte{byte(flushN >> 8), byte(flushN)}
			for name := range m.queued {
				delete(m.contents, name)
				delete(m.queued, name)
			}
			from := len(disk.Log)
			if err := prod.Flush(id); err != nil {
				c.Violation("flush-error", "flush-error", "Flush(%x): %v", id, err)
			}
			snap := map[string]map[string][]byte{}
			for n, db := range m.contents {
				snap[n] = cloneDB(db)
			}
			m.flushes[string(id)] = snap
			m.order = append(m.order, string(id))
			spans = append(spans, flushSpan{string(id), from, len(disk.Log)})
			c.Count("flushes", 1)
			perDB := map[string]int{}
			for _, le := range disk.Log[from:] {
				if le.Kind == LBatch && len(le.KVs) > 1 {
					perDB[le.DB]++
				}
			}
			for _, n := range perDB {
				if n >= 2 {
					c.Probe("flush_of_one_database_in_several_batches")
				}
			}
		}
	}
	if recreated {
		c.Probe("history_with_drop_and_recreate")
	}

	// ---- crash at every prefix of the durable log -------------------------------------------
	L := len(disk.Log)
	for p := 0; p <= L; p++ {
		c.Count("crash_points", 1)
		if p > 0 && disk.Log[p-1].Kind == LDrop {
			c.Probe("crash_point_after_drop_entry")
		}
		after := disk.Materialize(p)
		np := newFlushProducer(kind, after)
		surviving := after.Producer().Names()
		got, err := np.Initialize(surviving, nil)
		if err != nil {
			c.Probe("restart_reported_error")
			continue // dirty / not synchronised / non-initialised: always acceptable
		}
		where := fmt.Sprintf("%s, crash after %d of %d durable writes (last: %s)", []string{"SyncedPool", "flaggedproducer"}[kind], p, L, lastEntry(disk, p))
		var want map[string]map[string][]byte
		if got == nil {
			c.Probe("restart_reported_no_flush")
			want = map[string]map[string][]byte{}
		} else {
			c.Probe("restart_reported_some_flush")
			if len(got) < 1 || got[0] != flushable.CleanPrefix {
				c.Violation("crash-consistency", "unknown-flush-id", "%s: Initialize returned flush id %x", where, got)
			}
			w, ok := m.flushes[string(got[1:])]
			if !ok {
				c.Violation("crash-consistency", "unknown-flush-id", "%s: Initialize returned flush id %x which was never flushed", where, got)
			}
			want = w
		}
		for _, name := range names {
			raw := after.Contents(name)
			delete(raw, string(flushKey))
			wdb, existed := want[name]
			if !existed {
				if len(raw) != 0 {
					c.Violation("crash-consistency", sigFor(kind, "absent-db-has-data"), "%s: restart reports flush %x; database %q did not exist at that flush but now holds %s", where, got, name, fmtDB(raw))
				}
				continue
			}
			if raw == nil {
				c.Violation("crash-consistency", sigFor(kind, "db-missing-after-drop"), "%s: restart reports flush %x without error, but database %q, which held %s when that flush completed, no longer exists", where, got, name, fmtDB(wdb))
			}
			if !sameDB(raw, wdb) {
				c.Violation("crash-consistency", sigFor(kind, "contents-differ"), "%s: restart reports flush %x; database %q holds %s, at that flush it held %s", where, got, name, fmtDB(raw), fmtDB(wdb))
			}
		}
	}
	if len(m.order) >= 2 && L >= 6 {
		c.MarkNontrivial()
	}
	c.State(sim.Mix(uint64(L), uint64(len(m.order)), uint64(kind)))
}

func sigFor(kind int, s string) string {
	return []string{"SyncedPool", "flaggedproducer"}[kind] + "/" + s
}

func lastEntry(d *Disk, p int) string {
	if p == 0 {
		return "none"
	}
	return d.Log[p-1].String()
}

func sameDB(a, b map[string][]byte) bool {
	if len(a) != len(b) {
		return false
	}
	for k, v := range a {
		w, ok := b[k]
		if !ok || !bytes.Equal(v, w) {
			return false
		}
	}
	return true
}
