package kvsim

import (
	"bytes"
	"fmt"
	"sync"

	"github.com/Fantom-foundation/lachesis-base/kvdb"
	"github.com/Fantom-foundation/lachesis-base/kvdb/flushable"
	"github.com/Fantom-foundation/lachesis-base/kvdb/memorydb"
	"github.com/Fantom-foundation/lachesis-base/kvdb/synced"
	"github.com/Fantom-foundation/lachesis-base/kvdb/table"

	"verif/sim"
)

func knobInt(c *sim.Ctx, name string, lo, hi int) int {
	return int(c.Knob(name, func() int64 { return int64(c.Int(name, lo, hi)) }))
}

// ---- C22: flushable store = underlying overlaid with unflushed writes ---------------------------------

func RunFlushable(c *sim.Ctx) {
	variant := knobInt(c, "variant", 0, 2) // 0 over simdisk, 1 over memorydb, 2 lazy over simdisk
	preload := knobInt(c, "preload", 0, 6)
	maxOps := 80
	if c.Tier == "thorough" {
		maxOps = 250
	}
	nOps := knobInt(c, "ops", 3, maxOps)
	c.ProbeDecl("read_of_empty_value", "scan_with_several_results", "iterator_overlapped_write", "lazy_initialised_before_flush")

	s := &subject{c: c, prop: "C22", model: kvModel{}, under: kvModel{}, dirty: map[string]bool{}, weakIt: true}
	disk := NewDisk()
	switch variant {
	case 0, 2:
		base, _ := disk.Producer().OpenDB("x")
		for i := 0; i < preload; i++ {
			k := []byte{keyAlphabet[i%len(keyAlphabet)], keyAlphabet[(i/2)%len(keyAlphabet)]}[:1+i%2]
			v := []byte{byte(0x10 + i)}
			_ = base.Put(k, v)
			s.under[string(k)] = v
		}
		s.rawUnder = func() kvModel { return disk.Contents("x") }
		if variant == 0 {
			f := flushable.Wrap(base)
			s.store, s.fl, s.name = f, f, "Flushable over simdisk"
			s.model = s.under.clone()
		} else {
			lz := flushable.NewLazy(func() (kvdb.Store, error) { return disk.Producer().OpenDB("x") }, func() {})
			s.store, s.fl, s.lazy, s.name = lz, lz, lz, "LazyFlushable over simdisk"
			// nothing produced yet: reads see an empty store until the first flush / InitUnderlyingDb
		}
	default:
		base := memorydb.New()
		for i := 0; i < preload; i++ {
			k := []byte{keyAlphabet[i%len(keyAlphabet)]}
			v := []byte{byte(0x20 + i)}
			_ = base.Put(k, v)
			s.under[string(k)] = v
		}
		s.rawUnder = rawOf(base)
		f := flushable.Wrap(base)
		s.store, s.fl, s.name = f, f, "Flushable over memorydb"
		s.model = s.under.clone()
	}

	weights := make([]int, nOps_)
	copy(weights, []int{oPut: 10, oDel: 5, oGet: 6, oScan: 5, oBPut: 4, oBDel: 2, oBWrite: 3, oBReset: 1, oBReplay: 1, oSnapNew: 2, oSnapRead: 4,
		oSnapRel: 1, oIterNew: 3, oIterStep: 6, oIterRel: 1, oFlush: 3, oDropNF: 2, oNFPairs: 3, oReopen: 0, oInitUnder: 0})
	if variant == 2 {
		weights[oInitUnder] = 2
	}
	gen := func() (sim.Op, bool) {
		if len(c.Trace.Ops) >= nOps {
			return sim.Op{}, false
		}
		return genKVOp(c, weights), true
	}
	for {
		op, ok := c.Next(gen)
		if !ok {
			break
		}
		c.SimTime(1)
		if opIndex(op.K) == oInitUnder {
			if s.lazy != nil && !s.lazyInit {
				if _, err := s.lazy.InitUnderlyingDb(); err != nil {
					s.viol("kv-error", "kv-error/init", "InitUnderlyingDb: %v", err)
				}
				s.lazyInit = true
				c.Probe("lazy_initialised_before_flush")
				// the view becomes underlying + overlay
				nm := s.under.clone()
				for k := range s.dirty {
					if v, ok := s.model[k]; ok {
						nm[k] = v
					} else {
						delete(nm, k)
					}
				}
				// keys of the underlying store become visible to live iterators' oracle
				for k, v := range nm {
					s.noteWrite(k, v, false)
				}
				s.model = nm
			}
			continue
		}
		if len(s.iters) > 0 {
			switch opIndex(op.K) {
			case oPut, oDel, oBWrite, oFlush, oDropNF:
				c.Probe("iterator_overlapped_write")
			}
		}
		if s.lazy != nil && !s.lazyInit && opIndex(op.K) == oFlush {
			// first flush of a lazy store: the produced store's contents appear under the overlay
			nm := s.under.clone()
			for k := range s.dirty {
				if v, ok := s.model[k]; ok {
					nm[k] = v
				} else {
					delete(nm, k)
				}
			}
			for k, v := range nm {
				s.noteWrite(k, v, false)
			}
			s.model = nm
		}
		s.exec(op)
	}
	s.notFlushedPairs()
	s.finish()
	if len(c.Trace.Ops) >= 10 {
		c.MarkNontrivial()
	}
	c.State(sim.Mix(uint64(len(s.model)), uint64(len(s.under)), uint64(variant)))
}

const nOps_ = nOps

// ---- C23: backends and wrappers share one semantics ------------------------------------------------------

func RunBackends(c *sim.Ctx) {
	nStacks := knobInt(c, "stacks", 2, 4)
	maxOps := 60
	if c.Tier == "thorough" {
		maxOps = 200
	}
	nOps := knobInt(c, "ops", 3, maxOps)
	c.ProbeDecl("read_of_empty_value", "scan_with_several_results", "persistent_backend_reopened", "nested_table_with_sibling")
	defer cleanupScratch()
	nestedViaNewTable := knobInt(c, "nested_tables_via_NewTable", 0, 1) == 1

	type stack struct {
		sub       *subject
		base      opened
		wrap      []int
		prefixes  [][]byte
		rebuild   func(base kvdb.Store) kvdb.Store
		flushAll  func()
		hasFlush  bool
	}
	var stacks []*stack
	for i := 0; i < nStacks; i++ {
		baseKind := knobInt(c, fmt.Sprintf("base%d", i), 0, 2)
		depth := knobInt(c, fmt.Sprintf("depth%d", i), 0, 3)
		st := &stack{base: openBase(baseKind)}
		desc := st.base.desc
		var ws []int
		var ps [][]byte
		for d := 0; d < depth; d++ {
			w := knobInt(c, fmt.Sprintf("wrap%d_%d", i, d), 0, 2)
			p := tablePrefixes[knobInt(c, fmt.Sprintf("prefix%d_%d", i, d), 0, len(tablePrefixes)-1)]
			ws = append(ws, w)
			ps = append(ps, p)
			desc = fmt.Sprintf("%s(%x)", []string{"table", "flushable", "synced"}[w], p) + " over " + desc
		}
		var flushables []*flushable.Flushable
		st.rebuild = func(b kvdb.Store) kvdb.Store {
			flushables = nil
			cur := b
			for d := range ws {
				switch ws[d] {
				case 0:
					// prefixes as applications have them: sliced out of larger buffers (spare capacity)
					pb := make([]byte, len(ps[d]), len(ps[d])+8)
					copy(pb, ps[d])
					if pt, ok := cur.(*table.Table); ok && nestedViaNewTable {
						// nested tables the way the library offers them, with a sibling created afterwards (never used)
						cur = pt.NewTable(pb)
						_ = pt.NewTable([]byte{0x5a, 0xa5})
						c.Probe("nested_table_with_sibling")
					} else {
						cur = table.New(cur, pb)
					}
				case 1:
					f := flushable.Wrap(cur)
					flushables = append(flushables, f)
					cur = f
				default:
					cur = synced.WrapStore(cur, &sync.RWMutex{})
				}
			}
			return cur
		}
		top := st.rebuild(st.base.store)
		st.flushAll = func() {
			// flush from the top wrapper down so that the data reaches the base
			for j := len(flushables) - 1; j >= 0; j-- {
				if err := flushables[j].Flush(); err != nil {
					c.Violation("kv-error", "kv-error/flush", "[%s] Flush: %v", desc, err)
				}
			}
		}
		for _, w := range ws {
			if w == 1 {
				st.hasFlush = true
			}
		}
		st.sub = &subject{c: c, prop: "C23", name: desc, store: top, model: kvModel{}}
		st.sub.weakIt = st.hasFlush
		stacks = append(stacks, st)
	}
	defer func() {
		for _, st := range stacks {
			func() {
				defer func() { _ = recover() }()
				_ = st.base.store.Close()
			}()
			st.base.closeFn()
		}
	}()

	weights := make([]int, nOps_)
	copy(weights, []int{oPut: 10, oDel: 5, oGet: 6, oScan: 7, oBPut: 4, oBDel: 2, oBWrite: 3, oBReset: 1, oBReplay: 2, oSnapNew: 2, oSnapRead: 4,
		oSnapRel: 1, oIterNew: 0, oIterStep: 0, oIterRel: 0, oFlush: 2, oDropNF: 0, oNFPairs: 0, oReopen: 1, oInitUnder: 0})
	gen := func() (sim.Op, bool) {
		if len(c.Trace.Ops) >= nOps {
			return sim.Op{}, false
		}
		return genKVOp(c, weights), true
	}
	for {
		op, ok := c.Next(gen)
		if !ok {
			break
		}
		c.SimTime(1)
		for _, st := range stacks {
			switch opIndex(op.K) {
			case oFlush:
				st.flushAll()
				c.Count("flushes", 1)
			case oReopen:
				if st.base.reopen == nil {
					continue
				}
				// contents survive a close/reopen of a persistent backend
				st.flushAll()
				st.sub.batchReset()
				st.sub.batch = nil
				for len(st.sub.snaps) > 0 {
					st.sub.snapRelease(0)
				}
				if err := st.base.store.Close(); err != nil {
					c.Violation("kv-error", "kv-error/close", "[%s] Close: %v", st.sub.name, err)
				}
				st.base.store = st.base.reopen()
				st.sub.store = st.rebuild(st.base.store)
				c.Probe("persistent_backend_reopened")
				st.sub.scan(nil, nil)
			default:
				st.sub.exec(op)
			}
		}
	}
	for _, st := range stacks {
		st.sub.finish()
	}
	if len(c.Trace.Ops) >= 8 {
		c.MarkNontrivial()
	}
	c.State(sim.Mix(uint64(len(stacks[0].sub.model)), uint64(nStacks)))
}

// ---- C24: tables isolate their key spaces -------------------------------------------------------------------

func RunTables(c *sim.Ctx) {
	nTables := knobInt(c, "tables", 2, 4)
	maxOps := 70
	if c.Tier == "thorough" {
		maxOps = 220
	}
	nOps := knobInt(c, "ops", 3, maxOps)
	baseKind := knobInt(c, "base", 0, 1) // 0 simdisk store, 1 flushable over simdisk store (keeps references to key slices)
	c.ProbeDecl("nested_table", "prefix_related_tables", "write_of_empty_key", "whole_table_compaction", "prefix_ending_in_ff", "drop_called_on_a_table_view")

	disk := NewDisk()
	raw, _ := disk.Producer().OpenDB("x")
	var base kvdb.Store = raw
	var fl *flushable.Flushable
	if baseKind == 1 {
		fl = flushable.Wrap(raw)
		base = fl
	}
	under := kvModel{} // contents of base as seen through base
	readBase := rawOf(base)

	type tab struct {
		sub    *subject
		full   []byte // full prefix in base
		t      *table.Table
		parent int
	}
	var tabs []*tab
	for i := 0; i < nTables; i++ {
		p := append([]byte{}, tablePrefixes[knobInt(c, fmt.Sprintf("prefix%d", i), 0, len(tablePrefixes)-1)]...)
		parent := -1
		if i > 0 {
			parent = knobInt(c, fmt.Sprintf("parent%d", i), -1, i-1)
		}
		// give the prefix slice spare capacity, as prefixes sliced out of larger buffers have
		buf := make([]byte, len(p), len(p)+8)
		copy(buf, p)
		var t *table.Table
		full := p
		if parent >= 0 {
			t = tabs[parent].t.NewTable(buf)
			full = append(append([]byte{}, tabs[parent].full...), p...)
			c.Probe("nested_table")
		} else {
			t = table.New(base, buf)
		}
		if len(full) > 0 && full[len(full)-1] == 0xff {
			c.Probe("prefix_ending_in_ff")
		}
		tabs = append(tabs, &tab{sub: &subject{c: c, prop: "C24", name: fmt.Sprintf("table#%d(prefix %x)", i, full), store: t, model: kvModel{}, weakIt: baseKind == 1}, full: full, t: t, parent: parent})
	}
	for i := range tabs {
		for j := range tabs {
			if i != j && bytes.HasPrefix(tabs[i].full, tabs[j].full) {
				c.Probe("prefix_related_tables")
			}
		}
	}
	viewOf := func(t *tab) kvModel {
		m := kvModel{}
		for k, v := range under {
			if bytes.HasPrefix([]byte(k), t.full) {
				m[k[len(t.full):]] = v
			}
		}
		return m
	}

	weights := make([]int, nOps_)
	copy(weights, []int{oPut: 10, oDel: 5, oGet: 6, oScan: 7, oBPut: 4, oBDel: 2, oBWrite: 3, oBReset: 1, oBReplay: 2, oSnapNew: 2, oSnapRead: 4,
		oSnapRel: 1, oIterNew: 3, oIterStep: 5, oIterRel: 1, oFlush: 1, oDropNF: 1, oNFPairs: 0, oReopen: 3, oInitUnder: 2})
	gen := func() (sim.Op, bool) {
		if len(c.Trace.Ops) >= nOps {
			return sim.Op{}, false
		}
		op := genKVOp(c, weights)
		op.S = []string{fmt.Sprint(c.Pick("table", nTables))}
		if opIndex(op.K) == oInitUnder { // bounded compaction: needs two keys
			k1, k2 := genKey(c, "cstart", 2), genKey(c, "climit", 2)
			op.A = append([]int64{int64(len(k1))}, append(encBytes(k1), encBytes(k2)...)...)
		}
		return op, true
	}
	for {
		op, ok := c.Next(gen)
		if !ok {
			break
		}
		c.SimTime(1)
		ti := 0
		if len(op.S) > 0 {
			fmt.Sscan(op.S[0], &ti)
		}
		t := tabs[ti%nTables]
		// every table's model is derived from the one underlying model
		t.sub.model = viewOf(t)
		before := under.clone()
		switch opIndex(op.K) {
		case oFlush:
			if fl != nil {
				if err := fl.Flush(); err != nil {
					c.Violation("kv-error", "kv-error/flush", "Flush: %v", err)
				}
			}
			continue
		case oReopen: // whole-table compaction
			disk.Compactions = nil
			if err := t.t.Compact(nil, nil); err != nil {
				c.Violation("kv-error", "kv-error/compact", "Compact: %v", err)
			}
			c.Probe("whole_table_compaction")
			if len(disk.Compactions) != 1 {
				c.Violation("table-compact", "table-compact/calls", "[%s] Compact(nil,nil) made %d calls on the underlying store", t.sub.name, len(disk.Compactions))
			}
			cc := disk.Compactions[0]
			checkRange(c, t.sub.name, t.full, cc.Start, cc.Limit)
			continue
		case oInitUnder: // bounded compaction: the range must be the prefixed bounds
			k1, k2, ok := split2(op.A)
			if !ok {
				continue
			}
			disk.Compactions = nil
			if err := t.t.Compact(k1, k2); err != nil {
				c.Violation("kv-error", "kv-error/compact", "Compact: %v", err)
			}
			if len(disk.Compactions) != 1 {
				c.Violation("table-compact", "table-compact/calls", "[%s] Compact made %d calls on the underlying store", t.sub.name, len(disk.Compactions))
			}
			cc := disk.Compactions[0]
			ws, wl := append(append([]byte{}, t.full...), k1...), append(append([]byte{}, t.full...), k2...)
			if !bytes.Equal(cc.Start, ws) || !bytes.Equal(cc.Limit, wl) {
				c.Violation("table-compact", "table-compact/bounded", "[%s] Compact(%x,%x) asked the underlying store for [%x,%x), expected [%x,%x)", t.sub.name, k1, k2, cc.Start, cc.Limit, ws, wl)
			}
			c.Count("bounded_compactions", 1)
			continue
		case oPut:
			if k, _, ok := split2(op.A); ok && len(k) == 0 {
				c.Probe("write_of_empty_key")
			}
		case oDropNF:
			// (the flushable operation of this number is not used for tables) Drop through a table view: a view is not the
			// database; nothing outside it - and in this library nothing at all - may be dropped
			dropsBefore := disk.Drops["x"]
			t.t.Drop()
			c.Probe("drop_called_on_a_table_view")
			if disk.Drops["x"] != dropsBefore {
				c.Violation("table-isolation", "table-isolation/drop-reaches-the-database", "[%s] Drop() on the table view dropped the underlying database (which holds the other tables too)", t.sub.name)
			}
			if rawNow := readBase(); !sameDB(rawNow, under) {
				c.Violation("table-isolation", "table-isolation/drop-reaches-the-database", "[%s] after Drop() on the table view the underlying store holds %s, expected %s", t.sub.name, fmtDB(rawNow), fmtDB(under))
			}
			continue
		}
		t.sub.exec(op)
		// fold the table's writes back into the underlying model and compare with the real store
		nv := t.sub.model
		for k := range under {
			if bytes.HasPrefix([]byte(k), t.full) {
				if _, ok := nv[k[len(t.full):]]; !ok {
					delete(under, k)
				}
			}
		}
		for k, v := range nv {
			under[string(t.full)+k] = v
		}
		rawNow := readBase()
		if !sameDB(rawNow, under) {
			// classify: did the write leave the table's key space?
			for k, v := range rawNow {
				if ov, ok := before[k]; (!ok || !bytes.Equal(ov, v)) && !bytes.HasPrefix([]byte(k), t.full) {
					c.Violation("table-isolation", "table-isolation/foreign-write", "[%s] %s changed key %x of the underlying store, which does not start with the table's prefix", t.sub.name, op.K, k)
				}
			}
			for k := range before {
				if _, ok := rawNow[k]; !ok && !bytes.HasPrefix([]byte(k), t.full) {
					c.Violation("table-isolation", "table-isolation/foreign-write", "[%s] %s removed key %x of the underlying store, which does not start with the table's prefix", t.sub.name, op.K, k)
				}
			}
			c.Violation("table-view", "table-view/underlying", "[%s] after %s the underlying store holds %s, expected %s", t.sub.name, op.K, fmtDB(rawNow), fmtDB(under))
		}
		// every other table still sees exactly its part
		for _, o := range tabs {
			o.sub.model = viewOf(o)
			for k, v := range o.sub.model { // writes through related tables are visible to live iterators
				o.sub.noteWrite(k, v, false)
			}
			if o == t {
				continue
			}
			got, err := collect(o.t.NewIterator(nil, nil))
			if err != nil {
				c.Violation("kv-error", "kv-error/iterate", "%v", err)
			}
			if !eqPairs(got, o.sub.model.scan(nil, nil)) {
				c.Violation("table-view", "table-view/other-table", "[%s] after %s on %s this table iterates %s, expected %s", o.sub.name, op.K, t.sub.name, fmtPairs(got), fmtPairs(o.sub.model.scan(nil, nil)))
			}
		}
	}
	for _, t := range tabs {
		t.sub.model = viewOf(t)
		// live iterators/snapshots of a table were created against older states: only release them
		for len(t.sub.snaps) > 0 {
			t.sub.snapRelease(0)
		}
		for len(t.sub.iters) > 0 {
			t.sub.iterRelease(0)
		}
		t.sub.scan(nil, nil)
	}
	if len(c.Trace.Ops) >= 8 {
		c.MarkNontrivial()
	}
	c.State(sim.Mix(uint64(len(under)), uint64(nTables)))
}

// checkRange: start <= every key with the prefix < limit (limit nil = unbounded), over all keys of
// length <= len(prefix)+2 over the alphabet.
func checkRange(c *sim.Ctx, name string, prefix, start, limit []byte) {
	var exts [][]byte
	exts = append(exts, []byte{})
	for _, a := range keyAlphabet {
		exts = append(exts, []byte{a})
		for _, b := range keyAlphabet {
			exts = append(exts, []byte{a, b})
		}
	}
	for _, e := range exts {
		k := append(append([]byte{}, prefix...), e...)
		if bytes.Compare(start, k) > 0 || (limit != nil && bytes.Compare(k, limit) >= 0) {
			c.Violation("table-compact", "table-compact/range", "[%s] Compact(nil,nil) asked the underlying store for [%x,%x) which does not cover key %x of the table (prefix %x)", name, start, limit, k, prefix)
		}
	}
}
