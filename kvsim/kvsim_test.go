package kvsim

import (
	"testing"

	"verif/sim"
)

func TestC25(t *testing.T) {
	sim.Main(t, sim.Spec{Property: "C25", Engine: "E2-storage", Run: RunCrash})
}

func TestC22(t *testing.T) {
	sim.Main(t, sim.Spec{Property: "C22", Engine: "E2-storage", Run: RunFlushable})
}
func TestC23(t *testing.T) {
	sim.Main(t, sim.Spec{Property: "C23", Engine: "E2-storage", Run: RunBackends})
}
func TestC24(t *testing.T) {
	sim.Main(t, sim.Spec{Property: "C24", Engine: "E2-storage", Run: RunTables})
}

func TestC14(t *testing.T) {
	sim.Main(t, sim.Spec{Property: "C14", Engine: "E2-storage", Run: RunBuffer})
}
func TestC26(t *testing.T) {
	sim.Main(t, sim.Spec{Property: "C26", Engine: "E2-storage", Run: RunMultiDB})
}
func TestC27(t *testing.T) {
	sim.Main(t, sim.Spec{Property: "C27", Engine: "E2-storage", Run: RunCachedProducer})
}
