package kvsim

import (
	"testing"

	"verif/sim"
)

func TestC25(t *testing.T) {
	sim.Main(t, sim.Spec{Property: "C25", Engine: "E2-storage", Run: RunCrash})
}
