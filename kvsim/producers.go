package kvsim

import (
	"bytes"
	"fmt"
	"sort"

	"github.com/Fantom-foundation/lachesis-base/kvdb"
	"github.com/Fantom-foundation/lachesis-base/kvdb/cachedproducer"
	"github.com/Fantom-foundation/lachesis-base/kvdb/multidb"

	"verif/sim"
)

// ---- stubs --------------------------------------------------------------------------------------

// countStore counts Close/Drop calls per underlying store instance.
type countStore struct {
	kvdb.Store
	name      string
	id        int
	closes    int
	drops     int
	failClose bool // injected fault: the next Close releases the store but reports an I/O error
}

func (s *countStore) Close() error {
	s.closes++
	err := s.Store.Close()
	if s.failClose {
		s.failClose = false
		return ErrInjected
	}
	return err
}
func (s *countStore) Drop() { s.drops++; s.Store.Drop() }

// fullProducer is a kvdb.FullDBProducer over a simulated disk (flush protocol stubbed out).
type fullProducer struct {
	d        *Disk
	stores   []*countStore
	failOpen map[string]bool
}

func (p *fullProducer) OpenDB(name string) (kvdb.Store, error) {
	if p.failOpen[name] {
		delete(p.failOpen, name) // injected fault: this open fails, the next one works
		return nil, ErrInjected
	}
	st, err := p.d.Producer().OpenDB(name)
	if err != nil {
		return nil, err
	}
	cs := &countStore{Store: st, name: name, id: len(p.stores)}
	p.stores = append(p.stores, cs)
	return cs, nil
}
func (p *fullProducer) Names() []string                                  { return p.d.Producer().Names() }
func (p *fullProducer) NotFlushedSizeEst() int                           { return 0 }
func (p *fullProducer) Flush(id []byte) error                            { return nil }
func (p *fullProducer) Initialize(n []string, id []byte) ([]byte, error) { return id, nil }
func (p *fullProducer) Close() error                                     { return nil }

// ---- C27: caching producer reference-counts opens ------------------------------------------------

func RunCachedProducer(c *sim.Ctx) {
	variant := knobInt(c, "wrapper", 0, 1) // 0 WrapAll, 1 Wrap
	nOps := knobInt(c, "ops", 2, 40)
	faults := knobInt(c, "close_faults", 0, 1) == 1      // fault-injecting runs are a separate configuration
	dropOpen := knobInt(c, "drop_while_open", 0, 1) == 1 // Drop may also be called while opens are outstanding
	names := []string{"a", "b", "c"}
	c.ProbeDecl("over_close_reported", "reopen_after_last_close", "second_drop_suppressed", "last_close_failed_by_injection",
		"drop_with_opens_outstanding", "last_close_after_drop", "open_failed_by_injection", "open_after_failed_open", "second_producer_alive")

	under := &fullProducer{d: NewDisk(), failOpen: map[string]bool{}}
	failedOpen := map[string]bool{}
	var prod kvdb.DBProducer
	if variant == 0 {
		prod = cachedproducer.WrapAll(under)
	} else {
		prod = cachedproducer.Wrap(under)
	}
	// a second caching producer of the same process, over its own underlying producer, holds the same names
	// open for the whole run: caching producers are independent of one another
	var by kvdb.DBProducer
	var byUnder *fullProducer
	byHandles := map[string]kvdb.Store{}
	{ // in every run: a failure must not depend on what an earlier run of the same process left behind
		byUnder = &fullProducer{d: NewDisk(), failOpen: map[string]bool{}}
		if variant == 0 {
			by = cachedproducer.Wrap(byUnder)
		} else {
			by = cachedproducer.WrapAll(byUnder)
		}
		for _, n := range names {
			h, err := by.OpenDB(n)
			if err != nil {
				c.Violation("cached-open", "cached-open/error", "second producer: OpenDB(%s): %v", n, err)
			}
			byHandles[n] = h
		}
		if len(byUnder.stores) != len(names) {
			c.Violation("cached-open", "cached-open/underlying-open-count", "second producer: %d names opened, its underlying producer was asked %d times", len(names), len(byUnder.stores))
		}
		c.Probe("second_producer_alive")
	}
	type cyc struct {
		handle      kvdb.Store
		refs        int
		inst        *countStore // underlying instance of the current cycle
		drops       int         // real drops allowed before the next open
		ended       bool
		droppedOpen bool // dropped while opens were outstanding
	}
	st := map[string]*cyc{}
	wname := []string{"WrapAll", "Wrap"}[variant]

	gen := func() (sim.Op, bool) {
		if len(c.Trace.Ops) >= nOps {
			return sim.Op{}, false
		}
		w := []int{5, 5, 2, 0, 0}
		if faults {
			w[3], w[4] = 2, 1
		}
		return sim.Op{K: []string{"open", "close", "drop", "armfail", "armopenfail"}[c.PickW("op", w)], A: []int64{int64(c.Pick("name", len(names)))}}, true
	}
	for {
		op, ok := c.Next(gen)
		if !ok {
			break
		}
		c.SimTime(1)
		name := names[int(op.A[0])%len(names)]
		cy := st[name]
		switch op.K {
		case "open":
			before := len(under.stores)
			expectFail := under.failOpen[name] && (cy == nil || cy.refs == 0)
			h, err := prod.OpenDB(name)
			if expectFail {
				// the underlying open failed (injected): the error is passed on and the open does not count
				if err == nil {
					c.Violation("cached-open", "cached-open/fault-swallowed", "%s: OpenDB(%s) succeeded although the underlying open failed", wname, name)
				}
				c.Probe("open_failed_by_injection")
				failedOpen[name] = true
				continue
			}
			if err != nil {
				c.Violation("cached-open", "cached-open/error", "%s: OpenDB(%s): %v", wname, name, err)
			}
			c.Count("opens", 1)
			if failedOpen[name] {
				c.Probe("open_after_failed_open")
			}
			if cy != nil && cy.refs > 0 && cy.droppedOpen {
				// the cached store was dropped while open: whether it can still be read is the backend's business
			} else if _, herr := h.Has([]byte{1}); herr != nil {
				c.Violation("cached-open", "cached-open/unusable", "%s: OpenDB(%s) returned a store that cannot be read: %v", wname, name, herr)
			}
			if cy != nil && cy.refs > 0 {
				if h != cy.handle {
					c.Violation("cached-open", "cached-open/different-store", "%s: OpenDB(%s) while the name is open returned a different store", wname, name)
				}
				if len(under.stores) != before {
					c.Violation("cached-open", "cached-open/underlying-reopened", "%s: OpenDB(%s) while the name is open opened the underlying database again", wname, name)
				}
				cy.refs++
				cy.drops = 1
			} else {
				if len(under.stores) != before+1 {
					c.Violation("cached-open", "cached-open/underlying-open-count", "%s: first OpenDB(%s) of a cycle opened the underlying database %d times", wname, name, len(under.stores)-before)
				}
				if cy != nil {
					c.Probe("reopen_after_last_close")
				}
				st[name] = &cyc{handle: h, refs: 1, inst: under.stores[len(under.stores)-1], drops: 1}
			}
		case "close":
			if cy == nil {
				continue
			}
			closesBefore := cy.inst.closes
			err := cy.handle.Close()
			c.Count("closes", 1)
			switch {
			case cy.refs == 0:
				if err == nil {
					c.Violation("cached-close", "cached-close/over-close-not-reported", "%s: Close of %s after every open was closed returned nil", wname, name)
				}
				if cy.inst.closes != closesBefore {
					c.Violation("cached-close", "cached-close/underlying-closed-again", "%s: an over-close of %s closed the underlying database again", wname, name)
				}
				c.Probe("over_close_reported")
			case cy.refs == 1:
				if err != nil && err != ErrInjected {
					c.Violation("cached-close", "cached-close/last-close-error", "%s: the close matching the last open of %s returned %v", wname, name, err)
				}
				if err == ErrInjected {
					c.Probe("last_close_failed_by_injection")
				}
				if cy.inst.closes != closesBefore+1 {
					c.Violation("cached-close", "cached-close/underlying-close-count", "%s: the last close of %s closed the underlying database %d times", wname, name, cy.inst.closes-closesBefore)
				}
				if cy.droppedOpen {
					c.Probe("last_close_after_drop")
				}
				cy.refs = 0
			default:
				if err != nil {
					c.Violation("cached-close", "cached-close/error", "%s: Close of %s with %d opens outstanding returned %v", wname, name, cy.refs, err)
				}
				if cy.inst.closes != closesBefore {
					c.Violation("cached-close", "cached-close/early-underlying-close", "%s: Close of %s closed the underlying database while %d opens were outstanding", wname, name, cy.refs-1)
				}
				cy.refs--
			}
		case "armfail":
			if cy != nil && cy.refs > 0 {
				cy.inst.failClose = true
				c.Count("close_faults_armed", 1)
			}
		case "armopenfail":
			if faults {
				under.failOpen[name] = true
				c.Count("open_faults_armed", 1)
			}
		case "drop":
			if cy == nil {
				continue
			}
			// by default drop comes after the cycle ended (the on-disk backends insist on it); runs with
			// drop_while_open also drop with opens outstanding, which must not disturb the counting of closes
			if cy.refs > 0 {
				if !dropOpen {
					continue
				}
				cy.droppedOpen = true
				c.Probe("drop_with_opens_outstanding")
			}
			before := cy.inst.drops
			cy.handle.Drop()
			c.Count("drops", 1)
			got := cy.inst.drops - before
			if got > cy.drops {
				c.Violation("cached-drop", "cached-drop/twice", "%s: Drop of %s ran the underlying drop again without a new open", wname, name)
			}
			if cy.drops == 0 {
				c.Probe("second_drop_suppressed")
			}
			cy.drops -= got
		}
	}
	if by != nil {
		// the first producer's history did not touch the second one's databases, and its closes still work
		for _, s := range byUnder.stores {
			if s.closes != 0 || s.drops != 0 {
				c.Violation("cached-close", "cached-close/other-producer", "operations on one caching producer closed (%d) or dropped (%d) database %s of another caching producer", s.closes, s.drops, s.name)
			}
		}
		for _, n := range names {
			if h, ok := st[n]; ok && h.handle == byHandles[n] {
				c.Violation("cached-open", "cached-open/shared-between-producers", "two caching producers returned the same store for %s", n)
			}
			if err := byHandles[n].Close(); err != nil {
				c.Violation("cached-close", "cached-close/other-producer", "second producer: Close(%s) matching its only open returned %v", n, err)
			}
		}
		for _, s := range byUnder.stores {
			if s.closes != 1 {
				c.Violation("cached-close", "cached-close/underlying-close-count", "second producer: database %s closed %d times after its only open was closed", s.name, s.closes)
			}
		}
	}
	// leave nothing open (a run must not depend on an earlier run of the same process)
	for _, cy := range st {
		for i := 0; i < cy.refs; i++ {
			_ = cy.handle.Close()
		}
	}
	// every underlying instance: closed at most once
	for _, s := range under.stores {
		if s.closes > 1 {
			c.Violation("cached-close", "cached-close/underlying-close-count", "%s: underlying instance #%d of %s was closed %d times", wname, s.id, s.name, s.closes)
		}
	}
	if len(c.Trace.Ops) >= 5 {
		c.MarkNontrivial()
	}
	c.State(sim.Mix(uint64(len(under.stores)), uint64(variant)))
}

// ---- C26: multi-DB routing is deterministic and isolating ----------------------------------------

var recordsKey = []byte{0xfd, 'r', 'e', 'c'}

type routeChoice struct {
	req   string
	names []string // candidate route names (must repeat the scanf ops of req as a prefix)
}

var routeKeys = []routeChoice{
	{"a", []string{"main", "a"}}, {"b", []string{"main", "b"}}, {"a/x", []string{"main", "ax"}}, {"a/x/y", []string{"main", "axy"}},
	{"g-%d", []string{"x-%d", "x", "main"}}, {"g-%s", []string{"y-%s", "y", "main"}}, {"g-1", []string{"main", "g1"}},
	{"e/%d/%d", []string{"e-%d", "e-%d-%d", "main"}}, {"g", []string{"main", "gg"}},
}
var routeTables = []string{"", "t", "tt", "u", "g", "ge"}
var requests = []string{"a", "b", "a/x", "a/y", "a/x/y", "a/x/z", "g-1", "g-5", "g-77", "g-abc", "g", "g/e", "c", "c/d", "e/1/2", "e/3/4", ""}

func drawRouting(c *sim.Ctx, tag string, types int) map[string]multidb.Route {
	rt := map[string]multidb.Route{}
	tn := func(i int) multidb.TypeName { return multidb.TypeName([]string{"A", "B"}[i%2]) }
	rt[""] = multidb.Route{Type: tn(knobInt(c, tag+"_default_type", 0, types-1)), Name: "main", Table: routeTables[knobInt(c, tag+"_default_table", 0, 1)]}
	n := knobInt(c, tag+"_routes", 0, 6)
	for i := 0; i < n; i++ {
		rc := routeKeys[knobInt(c, fmt.Sprintf("%s_key%d", tag, i), 0, len(routeKeys)-1)]
		rt[rc.req] = multidb.Route{
			Type:  tn(knobInt(c, fmt.Sprintf("%s_type%d", tag, i), 0, types-1)),
			Name:  rc.names[knobInt(c, fmt.Sprintf("%s_name%d", tag, i), 0, len(rc.names)-1)],
			Table: routeTables[knobInt(c, fmt.Sprintf("%s_table%d", tag, i), 0, len(routeTables)-1)],
		}
	}
	return rt
}

func fmtRouting(rt map[string]multidb.Route) string {
	var ks []string
	for k := range rt {
		ks = append(ks, k)
	}
	sort.Strings(ks)
	s := ""
	for _, k := range ks {
		s += fmt.Sprintf("%q->%s/%s/%q ", k, rt[k].Type, rt[k].Name, rt[k].Table)
	}
	return s
}

func RunMultiDB(c *sim.Ctx) {
	nOps := knobInt(c, "ops", 2, 30)
	c.ProbeDecl("overlapping_pattern_routes", "open_refused_for_table_conflict", "verify_failed_as_expected", "verify_passed_after_restart", "database_type_retired", "request_reopened_after_its_database_was_dropped", "restart_continued_although_verification_failed", "verify_with_a_request_recorded_in_two_databases")
	disks := map[multidb.TypeName]*Disk{"A": NewDisk(), "B": NewDisk()}
	mkProducers := func() map[multidb.TypeName]kvdb.FullDBProducer {
		return map[multidb.TypeName]kvdb.FullDBProducer{"A": &fullProducer{d: disks["A"]}, "B": &fullProducer{d: disks["B"]}}
	}
	rt := drawRouting(c, "rt", 2)
	if _, a := rt["g-%d"]; a {
		if _, b := rt["g-%s"]; b {
			c.Probe("overlapping_pattern_routes")
		}
	}
	newProd := func(rt map[string]multidb.Route) *multidb.Producer {
		p, err := multidb.NewProducer(mkProducers(), rt, recordsKey)
		if err != nil {
			c.Abort() // a routing table the library refuses is not a subject of the property
		}
		return p
	}
	prod := newProd(rt)
	// ---- determinism: independently constructed producers route every request identically ----
	checkDeterminism := func(rt map[string]multidb.Route, ref *multidb.Producer) {
		for i := 0; i < 12; i++ {
			other := newProd(rt)
			for _, req := range requests {
				a, b := ref.RouteOf(req), other.RouteOf(req)
				if a != b {
					c.Violation("routing", "routing/nondeterministic", "two producers built from the same routing table {%s} route %q differently: %s/%s/%q vs %s/%s/%q", fmtRouting(rt), req, a.Type, a.Name, a.Table, b.Type, b.Name, b.Table)
				}
			}
		}
		c.Count("determinism_comparisons", 12*int64(len(requests)))
	}
	checkDeterminism(rt, prod)

	type rec struct {
		route multidb.Route
		store kvdb.Store
	}
	opened := map[string]*rec{} // successfully opened requests (since their database was last dropped), with the route they were recorded under
	everDropped := map[string]bool{}
	// every table record the databases hold: (request, route it was recorded under).  One request has several
	// records once the application went on with a changed routing although verification failed.
	type recEntry struct {
		req   string
		route multidb.Route
	}
	var records []recEntry
	hasRecord := func(req string, r multidb.Route) bool {
		for _, e := range records {
			if e.req == req && e.route.Type == r.Type && e.route.Name == r.Name && e.route.Table == r.Table {
				return true
			}
		}
		return false
	}
	byDB := func(r multidb.Route) string { return string(r.Type) + "/" + r.Name }

	gen := func() (sim.Op, bool) {
		if len(c.Trace.Ops) >= nOps {
			return sim.Op{}, false
		}
		switch c.PickW("op", []int{16, 2, 3}) {
		case 0:
			return sim.Op{K: "open", A: []int64{int64(c.Pick("req", len(requests)))}}, true
		case 2:
			return sim.Op{K: "drop", A: []int64{int64(c.Pick("req", len(requests)))}}, true
		default:
			force := int64(0)
			if c.Chance("continue_although_verification_fails", 300) {
				force = 1
			}
			return sim.Op{K: "restart", A: []int64{int64(c.Pick("edit", 3)), force}}, true
		}
	}
	restartN := 0
	forcedRouting := false
	for {
		op, ok := c.Next(gen)
		if !ok {
			break
		}
		c.SimTime(1)
		switch op.K {
		case "open":
			req := requests[int(op.A[0])%len(requests)]
			route := prod.RouteOf(req)
			st, err := prod.OpenDB(req)
			c.Count("opens", 1)
			// expected conflicts: another recorded request in the same database with a prefix-related table
			conflict, conflictTable, hasConflict := "", "", false
			for _, e := range records {
				if byDB(e.route) != byDB(route) {
					continue // recorded in another database: of no concern to this open
				}
				if e.req == req {
					if e.route.Table != route.Table {
						conflict, conflictTable, hasConflict = e.req, e.route.Table, true // re-assigning the table of a request
					}
					continue
				}
				if bytes.HasPrefix([]byte(e.route.Table), []byte(route.Table)) || bytes.HasPrefix([]byte(route.Table), []byte(e.route.Table)) {
					conflict, conflictTable, hasConflict = e.req, e.route.Table, true
				}
			}
			if err != nil {
				if !hasConflict {
					c.Violation("multidb-open", "multidb-open/refused", "OpenDB(%q) -> %s/%s/%q refused (%v) although no recorded request of that database has an overlapping table", req, route.Type, route.Name, route.Table, err)
				}
				c.Probe("open_refused_for_table_conflict")
				continue
			}
			if hasConflict {
				c.Violation("multidb-open", "multidb-open/overlap-accepted", "OpenDB(%q) -> %s/%s/%q succeeded although request %q is recorded in the same database with an overlapping table (%q)", req, route.Type, route.Name, route.Table, conflict, conflictTable)
			}
			if old, ok := opened[req]; ok && old.route != route && !forcedRouting {
				c.Violation("multidb-open", "multidb-open/reopen-moved", "re-opening %q yields %v, it was recorded as %v", req, route, old.route)
			}
			if !hasRecord(req, route) {
				records = append(records, recEntry{req, route})
			}
			if everDropped[req] {
				c.Probe("request_reopened_after_its_database_was_dropped")
			}
			opened[req] = &rec{route: route, store: st}
			// a unique pair through this store
			if err := st.Put([]byte("k"), []byte("owner:"+req)); err != nil {
				c.Violation("kv-error", "kv-error/put", "Put through %q: %v", req, err)
			}
			// isolation: nobody else sees it, and this store sees nobody else's
			for oreq, o := range opened {
				it := o.store.NewIterator(nil, nil)
				for it.Next() {
					if bytes.HasPrefix(it.Key(), recordsKey) || bytes.Equal(it.Key(), recordsKey) {
						continue
					}
					if string(it.Value()) != "owner:"+oreq {
						c.Violation("multidb-isolation", "multidb-isolation", "store opened for %q (%v) sees pair %x=%q written through another request", oreq, o.route, it.Key(), it.Value())
					}
				}
				it.Release()
				v, _ := o.store.Get([]byte("k"))
				if string(v) != "owner:"+oreq {
					c.Violation("multidb-isolation", "multidb-isolation/overwritten", "store opened for %q reads k=%q", oreq, v)
				}
			}
		case "drop":
			// the application drops the whole database a request lives in (through that request's store): every
			// record and pair of the database is gone, the same producer keeps running
			req := requests[int(op.A[0])%len(requests)]
			o, ok := opened[req]
			if !ok || o.route.NoDrop {
				continue
			}
			_ = o.store.Close()
			o.store.Drop()
			c.Count("database_drops", 1)
			for oreq, x := range opened {
				if byDB(x.route) == byDB(o.route) {
					delete(opened, oreq)
					everDropped[oreq] = true
				}
			}
			kept := records[:0]
			for _, e := range records {
				if byDB(e.route) != byDB(o.route) {
					kept = append(kept, e)
				}
			}
			records = kept
		case "restart":
			restartN++
			edit := int(op.A[0]) % 3
			nrt := rt
			if edit != 0 {
				types := 2
				if edit == 2 {
					types = 1
					c.Probe("database_type_retired")
				}
				nrt = drawRoutingReplay(c, fmt.Sprintf("rt%d", restartN), types)
			}
			np := newProd(nrt)
			checkDeterminism(nrt, np)
			// expected verdict of Verify: some recorded request is now routed elsewhere
			moved := ""
			for _, e := range records {
				if nr := np.RouteOf(e.req); nr.Type != e.route.Type || nr.Name != e.route.Name || nr.Table != e.route.Table {
					moved = fmt.Sprintf("%q: %s/%s/%q -> %s/%s/%q", e.req, e.route.Type, e.route.Name, e.route.Table, nr.Type, nr.Name, nr.Table)
				}
			}
			if len(records) > len(opened) {
				c.Probe("verify_with_a_request_recorded_in_two_databases")
			}
			err := np.Verify()
			c.Count("verifications", 1)
			if moved != "" && err == nil {
				c.Violation("multidb-verify", "multidb-verify/missed", "Verify() passed after a restart with routing {%s} although recorded request %s", fmtRouting(nrt), moved)
			}
			if moved == "" && err != nil {
				c.Violation("multidb-verify", "multidb-verify/false-alarm", "Verify() = %v after a restart with routing {%s} although every recorded request routes as before", err, fmtRouting(nrt))
			}
			if err != nil {
				c.Probe("verify_failed_as_expected")
				if len(op.A) < 2 || op.A[1] != 1 {
					continue // the application refuses to start: keep the old producer
				}
				// ... or goes on regardless (or never verifies): requests get recorded again where the new routing puts them
				forcedRouting = true
				c.Probe("restart_continued_although_verification_failed")
				prod, rt = np, nrt
				for req := range opened {
					delete(opened, req) // handles of the old process are gone; requests are opened again by later operations
				}
				continue
			}
			c.Probe("verify_passed_after_restart")
			prod, rt = np, nrt
			// re-open after restart: same database and table, data still there
			for req, o := range opened {
				st, err := prod.OpenDB(req)
				if err != nil {
					c.Violation("multidb-open", "multidb-open/reopen-after-restart", "re-opening %q after a restart failed: %v", req, err)
				}
				v, _ := st.Get([]byte("k"))
				if string(v) != "owner:"+req {
					c.Violation("multidb-open", "multidb-open/reopen-after-restart-data", "re-opening %q after a restart reads k=%q", req, v)
				}
				o.store = st
			}
		}
	}
	if len(opened) >= 2 {
		c.MarkNontrivial()
	}
	c.State(sim.Mix(uint64(len(opened)), uint64(len(rt))))
}

// drawRoutingReplay draws a routing table through knobs, so that it is part of the trace header.
func drawRoutingReplay(c *sim.Ctx, tag string, types int) map[string]multidb.Route {
	return drawRouting(c, tag, types)
}
