// Package kvsim is engine E2: sequential simulation of the storage layer (DESIGN.md §3.2).
// simdisk is the simulated disk: an in-memory kvdb.IterableDBProducer whose stores implement the
// whole kvdb.Store contract and append every durable mutation to one totally ordered log, so that
// a crash can be materialised at every prefix of that log.
package kvsim

import (
	"bytes"
	"errors"
	"fmt"
	"sort"
	"sync"

	"github.com/Fantom-foundation/lachesis-base/kvdb"
)

type LogKind int

const (
	LCreate LogKind = iota
	LPut
	LDel
	LBatch
	LDrop
)

type KV struct {
	K   []byte
	V   []byte // nil = delete
}

type LogEntry struct {
	Kind LogKind
	DB   string
	KVs  []KV // one pair for put/del, all pairs of an atomic batch
}

func (e LogEntry) String() string {
	k := [...]string{"create", "put", "del", "batch", "drop"}[e.Kind]
	s := fmt.Sprintf("%s(%s", k, e.DB)
	for _, p := range e.KVs {
		if p.V == nil {
			s += fmt.Sprintf(" -%x", p.K)
		} else {
			s += fmt.Sprintf(" %x=%x", p.K, p.V)
		}
	}
	return s + ")"
}

var ErrInjected = errors.New("simdisk: injected I/O error")

type Disk struct {
	mu    sync.Mutex // one real mutex: the disk itself is race-clean under E4
	dbs   map[string]*diskDB
	Log   []LogEntry
	noLog bool

	// fault injection: FailNext > 0 makes the FailNext-th next mutating call fail
	FailCountdown int
	Failures      int

	Compactions []CompactCall
	Opens       map[string]int
	Closes      map[string]int
	Drops       map[string]int
}

type CompactCall struct {
	DB           string
	Start, Limit []byte
}

type diskDB struct {
	name string
	data map[string][]byte
}

func NewDisk() *Disk {
	return &Disk{dbs: map[string]*diskDB{}, Opens: map[string]int{}, Closes: map[string]int{}, Drops: map[string]int{}}
}

// Materialize builds the disk a crash after the first n log entries leaves behind.
func (d *Disk) Materialize(n int) *Disk {
	nd := NewDisk()
	nd.noLog = true
	for _, e := range d.Log[:n] {
		nd.apply(e)
	}
	nd.noLog = false
	return nd
}

func (d *Disk) apply(e LogEntry) {
	switch e.Kind {
	case LCreate:
		if d.dbs[e.DB] == nil {
			d.dbs[e.DB] = &diskDB{name: e.DB, data: map[string][]byte{}}
		}
	case LDrop:
		delete(d.dbs, e.DB)
	default:
		db := d.dbs[e.DB]
		if db == nil {
			return
		}
		for _, p := range e.KVs {
			if p.V == nil {
				delete(db.data, string(p.K))
			} else {
				db.data[string(p.K)] = append([]byte{}, p.V...)
			}
		}
	}
}

func (d *Disk) record(e LogEntry) {
	d.apply(e)
	if !d.noLog {
		d.Log = append(d.Log, e)
	}
}

func (d *Disk) injected() bool {
	if d.FailCountdown > 0 {
		d.FailCountdown--
		if d.FailCountdown == 0 {
			d.Failures++
			return true
		}
	}
	return false
}

// Exists reports whether a database exists on the disk.
func (d *Disk) Exists(name string) bool {
	d.mu.Lock()
	defer d.mu.Unlock()
	return d.dbs[name] != nil
}

// Contents returns a copy of a database's raw contents (nil if it does not exist).
func (d *Disk) Contents(name string) map[string][]byte {
	d.mu.Lock()
	defer d.mu.Unlock()
	db := d.dbs[name]
	if db == nil {
		return nil
	}
	c := make(map[string][]byte, len(db.data))
	for k, v := range db.data {
		c[k] = append([]byte{}, v...)
	}
	return c
}

// ---- producer -------------------------------------------------------------------------------

type DiskProducer struct{ d *Disk }

func (d *Disk) Producer() *DiskProducer { return &DiskProducer{d} }

func (p *DiskProducer) Names() []string {
	p.d.mu.Lock()
	defer p.d.mu.Unlock()
	var r []string
	for n := range p.d.dbs {
		r = append(r, n)
	}
	sort.Strings(r)
	return r
}

func (p *DiskProducer) OpenDB(name string) (kvdb.Store, error) {
	p.d.mu.Lock()
	defer p.d.mu.Unlock()
	if p.d.dbs[name] == nil {
		if p.d.injected() {
			return nil, ErrInjected
		}
		p.d.record(LogEntry{Kind: LCreate, DB: name})
	}
	p.d.Opens[name]++
	return &DiskStore{d: p.d, name: name}, nil
}

// ---- store ----------------------------------------------------------------------------------

type DiskStore struct {
	d      *Disk
	name   string
	closed bool
}

var errNilArg = errors.New("simdisk: key or value is nil")
var errClosed = errors.New("simdisk: database closed")
var errGone = errors.New("simdisk: database dropped")

func (s *DiskStore) db() (*diskDB, error) {
	if s.closed {
		return nil, errClosed
	}
	db := s.d.dbs[s.name]
	if db == nil {
		return nil, errGone
	}
	return db, nil
}

func (s *DiskStore) Has(key []byte) (bool, error) {
	s.d.mu.Lock()
	defer s.d.mu.Unlock()
	db, err := s.db()
	if err != nil {
		return false, err
	}
	_, ok := db.data[string(key)]
	return ok, nil
}

func (s *DiskStore) Get(key []byte) ([]byte, error) {
	s.d.mu.Lock()
	defer s.d.mu.Unlock()
	db, err := s.db()
	if err != nil {
		return nil, err
	}
	v, ok := db.data[string(key)]
	if !ok {
		return nil, nil
	}
	return append([]byte{}, v...), nil
}

func (s *DiskStore) Put(key, value []byte) error {
	s.d.mu.Lock()
	defer s.d.mu.Unlock()
	if _, err := s.db(); err != nil {
		return err
	}
	if s.d.injected() {
		return ErrInjected
	}
	if value == nil || key == nil {
		return errNilArg // as flushable/memorydb do: a wrapper that turns an empty value into nil must not go unnoticed
	}
	s.d.record(LogEntry{Kind: LPut, DB: s.name, KVs: []KV{{append([]byte{}, key...), append([]byte{}, value...)}}})
	return nil
}

func (s *DiskStore) Delete(key []byte) error {
	s.d.mu.Lock()
	defer s.d.mu.Unlock()
	if _, err := s.db(); err != nil {
		return err
	}
	if s.d.injected() {
		return ErrInjected
	}
	s.d.record(LogEntry{Kind: LDel, DB: s.name, KVs: []KV{{append([]byte{}, key...), nil}}})
	return nil
}

func (s *DiskStore) Close() error {
	s.d.mu.Lock()
	defer s.d.mu.Unlock()
	if s.closed {
		return errClosed
	}
	s.closed = true
	s.d.Closes[s.name]++
	return nil
}

func (s *DiskStore) Drop() {
	s.d.mu.Lock()
	defer s.d.mu.Unlock()
	s.d.Drops[s.name]++
	if s.d.dbs[s.name] != nil {
		s.d.record(LogEntry{Kind: LDrop, DB: s.name})
	}
}

func (s *DiskStore) Stat(property string) (string, error) { return "", nil }

func (s *DiskStore) Compact(start, limit []byte) error {
	s.d.mu.Lock()
	defer s.d.mu.Unlock()
	cp := func(b []byte) []byte {
		if b == nil {
			return nil
		}
		return append([]byte{}, b...)
	}
	s.d.Compactions = append(s.d.Compactions, CompactCall{s.name, cp(start), cp(limit)})
	return nil
}

func sortedPairs(data map[string][]byte, prefix, start []byte) []KV {
	from := append(append([]byte{}, prefix...), start...)
	var r []KV
	for k, v := range data {
		kb := []byte(k)
		if bytes.HasPrefix(kb, prefix) && bytes.Compare(kb, from) >= 0 {
			r = append(r, KV{kb, append([]byte{}, v...)})
		}
	}
	sort.Slice(r, func(i, j int) bool { return bytes.Compare(r[i].K, r[j].K) < 0 })
	return r
}

type sliceIterator struct {
	pairs []KV
	i     int
	err   error
}

func (it *sliceIterator) Next() bool {
	if it.i >= len(it.pairs) {
		it.i = len(it.pairs) + 1
		return false
	}
	it.i++
	return true
}
func (it *sliceIterator) Error() error { return it.err }
func (it *sliceIterator) Key() []byte {
	if it.i < 1 || it.i > len(it.pairs) {
		return nil
	}
	return it.pairs[it.i-1].K
}
func (it *sliceIterator) Value() []byte {
	if it.i < 1 || it.i > len(it.pairs) {
		return nil
	}
	return it.pairs[it.i-1].V
}
func (it *sliceIterator) Release() { it.pairs = nil; it.i = 0 }

// NewIterator iterates over a copy taken at creation (a consistent point-in-time view, as the
// persistent backends give).
func (s *DiskStore) NewIterator(prefix, start []byte) kvdb.Iterator {
	s.d.mu.Lock()
	defer s.d.mu.Unlock()
	db, err := s.db()
	if err != nil {
		return &sliceIterator{err: err}
	}
	return &sliceIterator{pairs: sortedPairs(db.data, prefix, start)}
}

type diskSnapshot struct {
	mu   *sync.Mutex
	data map[string][]byte
}

func (s *DiskStore) GetSnapshot() (kvdb.Snapshot, error) {
	s.d.mu.Lock()
	defer s.d.mu.Unlock()
	db, err := s.db()
	if err != nil {
		return nil, err
	}
	c := make(map[string][]byte, len(db.data))
	for k, v := range db.data {
		c[k] = append([]byte{}, v...)
	}
	return &diskSnapshot{mu: &s.d.mu, data: c}, nil
}

func (s *diskSnapshot) Has(key []byte) (bool, error) {
	if s.data == nil {
		return false, errors.New("simdisk: snapshot released")
	}
	_, ok := s.data[string(key)]
	return ok, nil
}
func (s *diskSnapshot) Get(key []byte) ([]byte, error) {
	if s.data == nil {
		return nil, errors.New("simdisk: snapshot released")
	}
	v, ok := s.data[string(key)]
	if !ok {
		return nil, nil
	}
	return append([]byte{}, v...), nil
}
func (s *diskSnapshot) NewIterator(prefix, start []byte) kvdb.Iterator {
	if s.data == nil {
		return &sliceIterator{err: errors.New("simdisk: snapshot released")}
	}
	return &sliceIterator{pairs: sortedPairs(s.data, prefix, start)}
}
func (s *diskSnapshot) Release() { s.data = nil }

// ---- batch ----------------------------------------------------------------------------------

type diskBatch struct {
	s    *DiskStore
	kvs  []KV
	size int
}

func (s *DiskStore) NewBatch() kvdb.Batch { return &diskBatch{s: s} }

func (b *diskBatch) Put(key, value []byte) error {
	if value == nil || key == nil {
		return errNilArg
	}
	b.kvs = append(b.kvs, KV{append([]byte{}, key...), append([]byte{}, value...)})
	b.size += len(key) + len(value)
	return nil
}
func (b *diskBatch) Delete(key []byte) error {
	b.kvs = append(b.kvs, KV{append([]byte{}, key...), nil})
	b.size += len(key)
	return nil
}
func (b *diskBatch) ValueSize() int { return b.size }
func (b *diskBatch) Write() error {
	b.s.d.mu.Lock()
	defer b.s.d.mu.Unlock()
	if _, err := b.s.db(); err != nil {
		return err
	}
	if b.s.d.injected() {
		return ErrInjected
	}
	if len(b.kvs) == 0 {
		return nil
	}
	b.s.d.record(LogEntry{Kind: LBatch, DB: b.s.name, KVs: append([]KV{}, b.kvs...)})
	return nil
}
func (b *diskBatch) Reset() { b.kvs = b.kvs[:0]; b.size = 0 }
func (b *diskBatch) Replay(w kvdb.Writer) error {
	for _, p := range b.kvs {
		var err error
		if p.V == nil {
			err = w.Delete(p.K)
		} else {
			err = w.Put(p.K, p.V)
		}
		if err != nil {
			return err
		}
	}
	return nil
}
