package kvsim

import (
	"bytes"
	"fmt"
	"os"
	"sort"
	"sync"

	"github.com/Fantom-foundation/lachesis-base/kvdb"
	"github.com/Fantom-foundation/lachesis-base/kvdb/flushable"
	"github.com/Fantom-foundation/lachesis-base/kvdb/leveldb"
	"github.com/Fantom-foundation/lachesis-base/kvdb/memorydb"
	"github.com/Fantom-foundation/lachesis-base/kvdb/pebble"
	"github.com/Fantom-foundation/lachesis-base/kvdb/synced"
	"github.com/Fantom-foundation/lachesis-base/kvdb/table"

	"verif/sim"
)

// ---- the reference: an ordered byte-string map ----------------------------------------------------

type kvModel map[string][]byte

func (m kvModel) clone() kvModel {
	c := make(kvModel, len(m))
	for k, v := range m {
		c[k] = v
	}
	return c
}

func (m kvModel) scan(prefix, start []byte) []KV {
	return sortedPairs(m, prefix, start)
}

func fmtPairs(p []KV) string {
	s := "["
	for _, x := range p {
		s += fmt.Sprintf("%x=%x ", x.K, x.V)
	}
	return s + "]"
}

func collect(it kvdb.Iterator) ([]KV, error) {
	var r []KV
	for it.Next() {
		r = append(r, KV{append([]byte{}, it.Key()...), append([]byte{}, it.Value()...)})
	}
	err := it.Error()
	it.Release()
	return r, err
}

func eqPairs(a, b []KV) bool {
	if len(a) != len(b) {
		return false
	}
	for i := range a {
		if !bytes.Equal(a[i].K, b[i].K) || !bytes.Equal(a[i].V, b[i].V) {
			return false
		}
	}
	return true
}

// ---- a store under test with the operations of the property ------------------------------------------

type liveIter struct {
	it     kvdb.Iterator
	prefix []byte
	from   []byte
	last   []byte
	seen   map[string]map[string]bool // key -> values that were in the view at some instant of the iterator's life
	done   bool
}

type liveSnap struct {
	s     kvdb.Snapshot
	model kvModel
}

type subject struct {
	c     *sim.Ctx
	prop  string
	name  string
	store kvdb.Store
	model kvModel // the view

	// flushable bookkeeping (only when top is a flushable)
	fl       kvdb.FlushableKVStore
	under    kvModel         // what the underlying store must hold
	rawUnder func() kvModel  // reads the underlying store's raw contents
	dirty    map[string]bool // distinct keys written since the last flush/drop
	lazy     *flushable.LazyFlushable
	lazyInit bool

	batch  kvdb.Batch
	bops   []KV
	snaps  []*liveSnap
	iters  []*liveIter
	weakIt bool // iterators may overlap writes (flushable): weak oracle; otherwise point-in-time
	closed bool
}

func (s *subject) viol(class, sig, f string, a ...interface{}) {
	s.c.Violation(class, sig, "["+s.name+"] "+f, a...)
}

func (s *subject) noteWrite(k string, v []byte, del bool) {
	for _, li := range s.iters {
		if li.done {
			continue
		}
		if li.seen[k] == nil {
			li.seen[k] = map[string]bool{}
		}
		if del {
			li.seen[k]["\x00<absent>"] = true
		} else {
			li.seen[k]["v"+string(v)] = true
		}
	}
}

func (s *subject) put(k, v []byte) {
	if err := s.store.Put(k, v); err != nil {
		s.viol("kv-error", "kv-error/put", "Put(%x,%x): %v", k, v, err)
	}
	s.model[string(k)] = append([]byte{}, v...)
	if s.dirty != nil {
		s.dirty[string(k)] = true
	}
	s.noteWrite(string(k), v, false)
}

func (s *subject) del(k []byte) {
	if err := s.store.Delete(k); err != nil {
		s.viol("kv-error", "kv-error/delete", "Delete(%x): %v", k, err)
	}
	delete(s.model, string(k))
	if s.dirty != nil {
		s.dirty[string(k)] = true
	}
	s.noteWrite(string(k), nil, true)
}

func (s *subject) get(k []byte) {
	v, err := s.store.Get(k)
	if err != nil {
		s.viol("kv-error", "kv-error/get", "Get(%x): %v", k, err)
	}
	want, ok := s.model[string(k)]
	if ok != (v != nil) || (ok && !bytes.Equal(v, want)) {
		s.viol("kv-read", "kv-read/get", "Get(%x) = %x (nil=%v), model has %x (present=%v)", k, v, v == nil, want, ok)
	}
	h, err := s.store.Has(k)
	if err != nil {
		s.viol("kv-error", "kv-error/has", "Has(%x): %v", k, err)
	}
	if h != ok {
		s.viol("kv-read", "kv-read/has", "Has(%x) = %v, model says %v", k, h, ok)
	}
	if ok && len(want) == 0 {
		s.c.Probe("read_of_empty_value")
	}
}

func (s *subject) scan(prefix, start []byte) {
	got, err := collect(s.store.NewIterator(prefix, start))
	if err != nil {
		s.viol("kv-error", "kv-error/iterate", "NewIterator(%x,%x): %v", prefix, start, err)
	}
	want := s.model.scan(prefix, start)
	if !eqPairs(got, want) {
		s.viol("kv-read", "kv-read/iterate", "iteration(prefix=%x,start=%x) = %s, model: %s", prefix, start, fmtPairs(got), fmtPairs(want))
	}
	if len(want) > 1 {
		s.c.Probe("scan_with_several_results")
	}
}

func (s *subject) batchPut(k, v []byte) {
	if s.batch == nil {
		s.batch = s.store.NewBatch()
	}
	if err := s.batch.Put(k, v); err != nil {
		s.viol("kv-error", "kv-error/batch", "batch.Put: %v", err)
	}
	s.bops = append(s.bops, KV{k, v})
}
func (s *subject) batchDel(k []byte) {
	if s.batch == nil {
		s.batch = s.store.NewBatch()
	}
	if err := s.batch.Delete(k); err != nil {
		s.viol("kv-error", "kv-error/batch", "batch.Delete: %v", err)
	}
	s.bops = append(s.bops, KV{k, nil})
}
func (s *subject) batchWrite() {
	if s.batch == nil {
		return
	}
	if err := s.batch.Write(); err != nil {
		s.viol("kv-error", "kv-error/batch", "batch.Write: %v", err)
	}
	for _, o := range s.bops {
		if o.V == nil {
			delete(s.model, string(o.K))
			s.noteWrite(string(o.K), nil, true)
		} else {
			s.model[string(o.K)] = append([]byte{}, o.V...)
			s.noteWrite(string(o.K), o.V, false)
		}
		if s.dirty != nil {
			s.dirty[string(o.K)] = true
		}
	}
	s.batch.Reset()
	s.bops = nil
	s.c.Count("batch_writes", 1)
}
func (s *subject) batchReset() {
	if s.batch != nil {
		s.batch.Reset()
		s.bops = nil
	}
}

type recWriter struct {
	ops     []KV
	nilPuts int // Put calls that handed over a nil value (the stores of this library refuse them)
}

func (w *recWriter) Put(k, v []byte) error {
	if v == nil {
		w.nilPuts++
	}
	w.ops = append(w.ops, KV{append([]byte{}, k...), append([]byte{}, v...)})
	return nil
}
func (w *recWriter) Delete(k []byte) error {
	w.ops = append(w.ops, KV{append([]byte{}, k...), nil})
	return nil
}

// batchReplay: replaying the batch into a writer must reproduce the staged operations in order.
func (s *subject) batchReplay() {
	if s.batch == nil {
		return
	}
	w := &recWriter{}
	if err := s.batch.Replay(w); err != nil {
		s.viol("kv-error", "kv-error/replay", "batch.Replay: %v", err)
	}
	ok := len(w.ops) == len(s.bops)
	for i := 0; ok && i < len(w.ops); i++ {
		if !bytes.Equal(w.ops[i].K, s.bops[i].K) || (w.ops[i].V == nil) != (s.bops[i].V == nil) || !bytes.Equal(w.ops[i].V, s.bops[i].V) {
			ok = false
		}
	}
	if !ok {
		s.viol("kv-replay", "kv-replay", "batch.Replay produced %s, staged operations were %s", fmtPairs(w.ops), fmtPairs(s.bops))
	}
	if w.nilPuts > 0 {
		s.viol("kv-replay", "kv-replay/nil-value", "batch.Replay called Put with a nil value %d time(s) (staged operations %s): an empty value is a value, and the stores of this library refuse nil", w.nilPuts, fmtPairs(s.bops))
	}
	// the same batch replayed into a real store: every staged operation takes effect there
	dst := memorydb.New()
	if err := s.batch.Replay(dst); err != nil {
		s.viol("kv-error", "kv-error/replay", "batch.Replay into a memory store: %v", err)
	}
	want := kvModel{}
	for _, o := range s.bops {
		if o.V == nil {
			delete(want, string(o.K))
		} else {
			want[string(o.K)] = o.V
		}
	}
	got := kvModel{}
	it := dst.NewIterator(nil, nil)
	for it.Next() {
		got[string(it.Key())] = append([]byte{}, it.Value()...)
	}
	it.Release()
	if len(got) != len(want) {
		s.viol("kv-replay", "kv-replay/into-store", "batch.Replay into an empty memory store left %d keys, the staged operations %s leave %d", len(got), fmtPairs(s.bops), len(want))
	}
	for k, v := range want {
		if g, ok := got[k]; !ok || !bytes.Equal(g, v) {
			s.viol("kv-replay", "kv-replay/into-store", "batch.Replay into an empty memory store: key %x is %x (present=%v), the staged operations %s give %x", k, g, ok, fmtPairs(s.bops), v)
		}
	}
	s.c.Count("batch_replays", 1)
}

func (s *subject) snapNew() {
	sn, err := s.store.GetSnapshot()
	if err != nil {
		s.viol("kv-error", "kv-error/snapshot", "GetSnapshot: %v", err)
	}
	s.snaps = append(s.snaps, &liveSnap{sn, s.model.clone()})
	s.c.Count("snapshots", 1)
}

func (s *subject) snapRead(i int, k, prefix, start []byte) {
	if len(s.snaps) == 0 {
		return
	}
	ls := s.snaps[i%len(s.snaps)]
	v, err := ls.s.Get(k)
	if err != nil {
		s.viol("kv-error", "kv-error/snapshot", "snapshot.Get: %v", err)
	}
	want, ok := ls.model[string(k)]
	if ok != (v != nil) || (ok && !bytes.Equal(v, want)) {
		s.viol("snapshot", "snapshot/get", "snapshot.Get(%x) = %x (nil=%v), at creation the store had %x (present=%v)", k, v, v == nil, want, ok)
	}
	h, err := ls.s.Has(k)
	if err != nil {
		s.viol("kv-error", "kv-error/snapshot", "snapshot.Has: %v", err)
	}
	if h != ok {
		s.viol("snapshot", "snapshot/has", "snapshot.Has(%x) = %v, at creation: %v", k, h, ok)
	}
	got, err := collect(ls.s.NewIterator(prefix, start))
	if err != nil {
		s.viol("kv-error", "kv-error/snapshot", "snapshot iterate: %v", err)
	}
	w := ls.model.scan(prefix, start)
	if !eqPairs(got, w) {
		s.viol("snapshot", "snapshot/iterate", "snapshot iteration(prefix=%x,start=%x) = %s, at creation: %s", prefix, start, fmtPairs(got), fmtPairs(w))
	}
	s.c.Count("snapshot_reads", 1)
}

func (s *subject) snapRelease(i int) {
	if len(s.snaps) == 0 {
		return
	}
	i %= len(s.snaps)
	s.snaps[i].s.Release()
	s.snaps = append(s.snaps[:i], s.snaps[i+1:]...)
}

func (s *subject) iterNew(prefix, start []byte) {
	li := &liveIter{it: s.store.NewIterator(prefix, start), prefix: prefix, from: append(append([]byte{}, prefix...), start...), seen: map[string]map[string]bool{}}
	for k, v := range s.model {
		li.seen[k] = map[string]bool{"v" + string(v): true}
	}
	s.iters = append(s.iters, li)
	s.c.Count("live_iterators", 1)
}

func (s *subject) iterStep(i, n int) {
	if len(s.iters) == 0 {
		return
	}
	li := s.iters[i%len(s.iters)]
	if li.done {
		return
	}
	for j := 0; j < n; j++ {
		if !li.it.Next() {
			if err := li.it.Error(); err != nil {
				s.viol("kv-error", "kv-error/iterate", "live iterator: %v", err)
			}
			li.done = true
			return
		}
		k, v := append([]byte{}, li.it.Key()...), append([]byte{}, li.it.Value()...)
		if !bytes.HasPrefix(k, li.prefix) || bytes.Compare(k, li.from) < 0 {
			s.viol("live-iterator", "live-iterator/range", "iterator(prefix=%x from=%x) returned key %x", li.prefix, li.from, k)
		}
		if li.last != nil && bytes.Compare(k, li.last) <= 0 {
			s.viol("live-iterator", "live-iterator/order", "iterator returned key %x after %x", k, li.last)
		}
		li.last = k
		if vs := li.seen[string(k)]; vs == nil || !vs["v"+string(v)] {
			s.viol("live-iterator", "live-iterator/phantom", "iterator returned %x=%x, a pair that was never in the store during the iterator's life", k, v)
		}
		s.c.Count("live_iterator_steps", 1)
	}
}

func (s *subject) iterRelease(i int) {
	if len(s.iters) == 0 {
		return
	}
	i %= len(s.iters)
	s.iters[i].it.Release()
	s.iters = append(s.iters[:i], s.iters[i+1:]...)
}

// ---- flushable-specific operations (C22) ----

func (s *subject) flush() {
	if s.fl == nil {
		return
	}
	if err := s.fl.Flush(); err != nil {
		s.viol("kv-error", "kv-error/flush", "Flush: %v", err)
	}
	s.under = s.model.clone()
	s.dirty = map[string]bool{}
	s.lazyInit = true
	s.c.Count("flushes", 1)
	if n := s.fl.NotFlushedPairs(); n != 0 {
		s.viol("flushable", "flushable/overlay-after-flush", "NotFlushedPairs() = %d right after Flush", n)
	}
	s.checkUnder("after Flush")
}

func (s *subject) dropNotFlushed() {
	if s.fl == nil {
		return
	}
	s.fl.DropNotFlushed()
	// the view is the underlying store again
	if s.lazy != nil && !s.lazyInit {
		s.model = kvModel{} // nothing produced yet: the lazy store reads as empty
	} else {
		s.model = s.under.clone()
	}
	for k := range s.dirty {
		// every key written since is observed to change back
		if v, ok := s.model[k]; ok {
			s.noteWrite(k, v, false)
		} else {
			s.noteWrite(k, nil, true)
		}
	}
	s.dirty = map[string]bool{}
	s.c.Count("drops_not_flushed", 1)
	s.checkUnder("after DropNotFlushed")
}

func (s *subject) notFlushedPairs() {
	if s.fl == nil {
		return
	}
	if n := s.fl.NotFlushedPairs(); n != len(s.dirty) {
		s.viol("flushable", "flushable/not-flushed-pairs", "NotFlushedPairs() = %d, distinct keys written since the last flush/drop: %d", n, len(s.dirty))
	}
}

func (s *subject) checkUnder(when string) {
	if s.rawUnder == nil {
		return
	}
	raw := s.rawUnder()
	if !sameDB(raw, s.under) {
		s.viol("flushable", "flushable/underlying", "%s the underlying store holds %s, expected %s", when, fmtDB(raw), fmtDB(s.under))
	}
}

// ---- stackings --------------------------------------------------------------------------------------

func rawOf(st kvdb.Store) func() kvModel {
	return func() kvModel {
		m := kvModel{}
		it := st.NewIterator(nil, nil)
		for it.Next() {
			m[string(it.Key())] = append([]byte{}, it.Value()...)
		}
		it.Release()
		return m
	}
}

var scratchRoot string
var scratchN int

func scratchDir() string {
	if scratchRoot == "" {
		d, err := os.MkdirTemp("", "verif-kv-")
		if err != nil {
			panic(err)
		}
		scratchRoot = d
	}
	scratchN++
	return fmt.Sprintf("%s/db%d", scratchRoot, scratchN)
}

func cleanupScratch() {
	if scratchRoot != "" {
		_ = os.RemoveAll(scratchRoot)
		scratchRoot = ""
	}
}

type opened struct {
	store   kvdb.Store
	closeFn func()
	reopen  func() kvdb.Store // persistent backends
	desc    string
}

func openBase(kind int) opened {
	switch kind {
	case 1:
		path := scratchDir()
		mk := func() kvdb.Store {
			db, err := leveldb.New(path, 0, 0, nil, func() { _ = os.RemoveAll(path) })
			if err != nil {
				panic(fmt.Sprintf("harness: leveldb.New: %v", err))
			}
			return db
		}
		return opened{store: mk(), reopen: mk, desc: "leveldb", closeFn: func() { _ = os.RemoveAll(path) }}
	case 2:
		path := scratchDir()
		mk := func() kvdb.Store {
			db, err := pebble.New(path, 1<<20, 16, nil, func() { _ = os.RemoveAll(path) })
			if err != nil {
				panic(fmt.Sprintf("harness: pebble.New: %v", err))
			}
			return db
		}
		return opened{store: mk(), reopen: mk, desc: "pebble", closeFn: func() { _ = os.RemoveAll(path) }}
	default:
		return opened{store: memorydb.New(), desc: "memorydb", closeFn: func() {}}
	}
}

var tablePrefixes = [][]byte{{}, {0x00}, {0x01}, {0xff}, {0x01, 0xff}, {0xff, 0xff}, {0x7f}, {0x01, 0x00}, {0xfe, 0xff}, {0x00, 0x00}}

// ---- generic op generation / execution ---------------------------------------------------------------

const (
	oPut = iota
	oDel
	oGet
	oScan
	oBPut
	oBDel
	oBWrite
	oBReset
	oBReplay
	oSnapNew
	oSnapRead
	oSnapRel
	oIterNew
	oIterStep
	oIterRel
	oFlush
	oDropNF
	oNFPairs
	oReopen
	oInitUnder
	nOps
)

var opNames = [...]string{"put", "del", "get", "scan", "bput", "bdel", "bwrite", "breset", "breplay", "snapnew", "snapread", "snaprel", "iternew", "iterstep", "iterrel", "flush", "dropnf", "nfpairs", "reopen", "initunder"}

func opIndex(name string) int {
	for i, n := range opNames {
		if n == name {
			return i
		}
	}
	return -1
}

// genKVOp draws one operation; A = [klen, k..., v...] style packing via packKV.
func genKVOp(c *sim.Ctx, weights []int) sim.Op {
	o := c.PickW("kvop", weights)
	op := sim.Op{K: opNames[o]}
	key := func() []byte { return genKey(c, "key", 3) }
	val := func() []byte { return genKey(c, "val", 2) }
	switch o {
	case oPut, oBPut:
		k, v := key(), val()
		op.A = append([]int64{int64(len(k))}, append(encBytes(k), encBytes(v)...)...)
	case oDel, oBDel, oGet:
		op.A = encBytes(key())
	case oScan, oIterNew:
		p, s := genKey(c, "prefix", 2), genKey(c, "start", 2)
		op.A = append([]int64{int64(len(p))}, append(encBytes(p), encBytes(s)...)...)
	case oSnapRead:
		k, p, s := key(), genKey(c, "prefix", 1), genKey(c, "start", 1)
		op.A = []int64{int64(c.Pick("snap", 4)), int64(len(k)), int64(len(p))}
		op.A = append(op.A, encBytes(k)...)
		op.A = append(op.A, encBytes(p)...)
		op.A = append(op.A, encBytes(s)...)
	case oSnapRel, oIterRel:
		op.A = []int64{int64(c.Pick("which", 4))}
	case oIterStep:
		op.A = []int64{int64(c.Pick("which", 4)), int64(1 + c.Pick("steps", 4))}
	}
	return op
}

func split2(a []int64) ([]byte, []byte, bool) {
	if len(a) < 1 {
		return nil, nil, false
	}
	n := int(a[0])
	if n < 0 || 1+n > len(a) {
		return nil, nil, false
	}
	return decBytes(a[1 : 1+n]), decBytes(a[1+n:]), true
}

func (s *subject) exec(op sim.Op) {
	switch opIndex(op.K) {
	case oPut:
		if k, v, ok := split2(op.A); ok {
			s.put(k, v)
		}
	case oDel:
		s.del(decBytes(op.A))
	case oGet:
		s.get(decBytes(op.A))
	case oScan:
		if p, st, ok := split2(op.A); ok {
			s.scan(p, st)
		}
	case oBPut:
		if k, v, ok := split2(op.A); ok {
			s.batchPut(k, v)
		}
	case oBDel:
		s.batchDel(decBytes(op.A))
	case oBWrite:
		s.batchWrite()
	case oBReset:
		s.batchReset()
	case oBReplay:
		s.batchReplay()
	case oSnapNew:
		if len(s.snaps) < 4 {
			s.snapNew()
		}
	case oSnapRead:
		if len(op.A) >= 3 {
			kl, pl := int(op.A[1]), int(op.A[2])
			rest := op.A[3:]
			if kl >= 0 && pl >= 0 && kl+pl <= len(rest) {
				s.snapRead(int(op.A[0]), decBytes(rest[:kl]), decBytes(rest[kl:kl+pl]), decBytes(rest[kl+pl:]))
			}
		}
	case oSnapRel:
		if len(op.A) >= 1 {
			s.snapRelease(int(op.A[0]))
		}
	case oIterNew:
		if p, st, ok := split2(op.A); ok && len(s.iters) < 4 {
			s.iterNew(p, st)
		}
	case oIterStep:
		if len(op.A) >= 2 {
			s.iterStep(int(op.A[0]), int(op.A[1]))
		}
	case oIterRel:
		if len(op.A) >= 1 {
			s.iterRelease(int(op.A[0]))
		}
	case oFlush:
		s.flush()
	case oDropNF:
		s.dropNotFlushed()
	case oNFPairs:
		s.notFlushedPairs()
	}
}

func (s *subject) finish() {
	for len(s.snaps) > 0 {
		s.snapRead(0, []byte{0x01}, nil, nil)
		s.snapRelease(0)
	}
	for len(s.iters) > 0 {
		s.iterStep(0, 1000)
		s.iterRelease(0)
	}
	s.scan(nil, nil)
}

var _ = sort.Strings
var _ sync.Mutex
var _ = table.New
var _ = synced.WrapStore
