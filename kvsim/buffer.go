package kvsim

import (
	"errors"
	"fmt"
	"math"

	"github.com/Fantom-foundation/lachesis-base/eventcheck"
	"github.com/Fantom-foundation/lachesis-base/gossip/dagordering"
	"github.com/Fantom-foundation/lachesis-base/hash"
	"github.com/Fantom-foundation/lachesis-base/inter/dag"
	"github.com/Fantom-foundation/lachesis-base/inter/idx"

	"verif/sim"
)

// ---- C14: ordering buffer delivers parents first, once, and releases every push -------------------

// copyEvent is one pushed copy of an event: a distinct object per push, so that callbacks can be
// attributed to the copy they concern.
type copyEvent struct {
	dag.Event
	ev   int
	copy int
}

type copyState struct {
	ev        int
	peer      string
	processed int
	released  int
	relErr    error
}

func RunBuffer(c *sim.Ctx) {
	n := knobInt(c, "events", 1, 10)
	c.ProbeDecl("process_failure_injected", "check_failure_injected", "spilled_by_limit", "duplicate_copy_pushed", "connected_outside_buffer", "push_processed_2_or_more_events", "push_processed_3_or_more_events", "all_events_processed_with_ample_limits", "event_names_a_parent_twice", "byte_limit_equals_size_of_some_events", "limits_exactly_the_peak_need")
	// a DAG: event i has up to 3 parents among 0..i-1
	type evd struct {
		parents []int
		id      hash.Event
		base    *dag.BaseEvent
	}
	evs := make([]*evd, n)
	dupParents := knobInt(c, "parents_lists_with_duplicates", 0, 3) == 0
	for i := 0; i < n; i++ {
		np := knobInt(c, fmt.Sprintf("nparents%d", i), 0, 3)
		e := &evd{}
		seen := map[int]bool{}
		for j := 0; j < np && i > 0; j++ {
			p := knobInt(c, fmt.Sprintf("parent%d_%d", i, j), 0, i-1)
			if !seen[p] {
				seen[p] = true
				e.parents = append(e.parents, p)
			}
		}
		me := &dag.MutableBaseEvent{}
		me.SetEpoch(1)
		me.SetSeq(idx.Event(i + 1))
		me.SetCreator(1)
		me.SetLamport(idx.Lamport(i + 1))
		me.SetFrame(1)
		var ps hash.Events
		for _, p := range e.parents {
			ps = append(ps, evs[p].id)
		}
		if dupParents && len(ps) > 0 && knobInt(c, fmt.Sprintf("dup_parent%d", i), 0, 3) == 0 {
			// a malformed parents list naming one parent twice (the buffer runs before or without the basic checks)
			ps = append(ps, ps[0])
			c.Probe("event_names_a_parent_twice")
		}
		me.SetParents(ps)
		var rid [24]byte
		rid[0], rid[1] = byte(i+1), 0xee
		e.base = me.Build(rid)
		e.id = e.base.ID()
		evs[i] = e
	}
	byID := map[hash.Event]int{}
	for i, e := range evs {
		byID[e.id] = i
	}
	limChoice := knobInt(c, "limit_events", 0, n+1)
	ample := limChoice > n
	limNum := limChoice
	if ample {
		limNum = 1000
	}
	sizeChoice := knobInt(c, "limit_bytes_in_events", 0, n+1)
	limSize := uint64(sizeChoice) * 90
	if sizeChoice > n {
		limSize = 1 << 30
	} else {
		ample = false
	}
	if !(sizeChoice > n) && knobInt(c, "limit_bytes_exactly_some_events", 0, 2) == 0 && sizeChoice > 0 {
		// a byte limit that is exactly the size of a run of events: the boundary case "buffered bytes == limit"
		first := knobInt(c, "limit_bytes_first_event", 0, n-1)
		limSize = 0
		for j := 0; j < sizeChoice; j++ {
			limSize += uint64(evs[(first+j)%n].base.Size())
		}
		c.Probe("byte_limit_equals_size_of_some_events")
	}
	limit := dag.Metric{Num: idx.Event(limNum), Size: limSize}
	// "no limit" is written in several ways by applications: generous numbers or the largest values of the types
	switch knobInt(c, "ample_limit_style", 0, 3) {
	case 1:
		if limNum == 1000 {
			limit.Num = math.MaxUint32
		}
		if limSize == 1<<30 {
			limit.Size = math.MaxUint64
		}
	case 2:
		if limNum == 1000 {
			limit.Num = 1 << 31
		}
		if limSize == 1<<30 {
			limit.Size = 1 << 63
		}
	case 3:
		if limSize == 1<<30 {
			limit.Size = math.MaxInt64
		}
	}
	// peak-exact mode: every event is pushed once, in a drawn order, nothing fails, and the limits are EXACTLY what that
	// order needs at its worst moment (computed on a model of the buffer): the limits suffice, so every event has
	// to be processed, and "buffered == limit" is reached
	var pre []sim.Op
	peakExact := knobInt(c, "limits_exactly_the_peak_need", 0, 5) == 0
	if peakExact {
		left := make([]int, n)
		for i := range left {
			left[i] = i
		}
		for len(left) > 0 {
			op, ok := c.Next(func() (sim.Op, bool) {
				j := c.Pick("next_event", len(left))
				return sim.Op{K: "push", A: []int64{int64(left[j]), int64(c.Pick("peer", 3))}}, true
			})
			if !ok {
				break
			}
			if op.K != "push" || len(op.A) < 2 {
				pre = append(pre, op) // (a minimised trace) not lost: executed in its turn
				break
			}
			e := int(op.A[0]) % n
			for j := range left {
				if left[j] == e {
					left = append(left[:j], left[j+1:]...)
					break
				}
			}
			pre = append(pre, op)
			if c.Replaying() && len(pre) >= n {
				break
			}
		}
		conn, held := map[int]bool{}, map[int]bool{}
		var peakN, peakW, curW uint64
		curN := uint64(0)
		for _, op := range pre {
			if op.K != "push" {
				continue
			}
			e := int(op.A[0]) % n
			if conn[e] || held[e] {
				continue
			}
			ready := func(x int) bool {
				for _, p := range evs[x].parents {
					if !conn[p] {
						return false
					}
				}
				return true
			}
			if !ready(e) {
				held[e] = true
				curN++
				curW += uint64(evs[e].base.Size())
				if curN > peakN {
					peakN = curN
				}
				if curW > peakW {
					peakW = curW
				}
				continue
			}
			conn[e] = true
			for again := true; again; {
				again = false
				for x := range held {
					if held[x] && ready(x) {
						delete(held, x)
						curN--
						curW -= uint64(evs[x].base.Size())
						conn[x] = true
						again = true
					}
				}
			}
		}
		if peakN == 0 {
			peakExact = false // nothing is ever buffered in this order: ordinary limits apply
		} else {
			limit = dag.Metric{Num: idx.Event(peakN), Size: peakW}
			limNum = int(peakN)
			ample = true
			c.Probe("limits_exactly_the_peak_need")
		}
	}
	failProc := map[int]bool{}
	failCheck := map[int]bool{}
	nf := knobInt(c, "failing_events", 0, 2)
	for j := 0; j < nf; j++ {
		e := knobInt(c, fmt.Sprintf("fail_event%d", j), 0, n-1)
		if knobInt(c, fmt.Sprintf("fail_kind%d", j), 0, 1) == 0 {
			failProc[e] = true
		} else {
			failCheck[e] = true
		}
	}
	nPush := knobInt(c, "pushes", 1, 2*n+2)
	// events whose successful processing coincides with their children arriving by another route
	// (a concurrent path connects them between Process and the re-check of the waiting copies)
	sideConnect := map[int]bool{}
	for j, ns := 0, knobInt(c, "side_connect_events", 0, 2); j < ns; j++ {
		sideConnect[knobInt(c, fmt.Sprintf("side_connect_event%d", j), 0, n-1)] = true
	}
	if peakExact {
		failProc, failCheck = map[int]bool{}, map[int]bool{}
		sideConnect = map[int]bool{}
	}

	connected := map[int]bool{} // events the application holds (processed successfully or connected outside)
	var copies []*copyState
	cleared := false
	depth, maxDepth := 0, 0
	procCalls := 0
	var buf *dagordering.EventsBuffer
	viol := func(class, sig, f string, a ...interface{}) { c.Violation(class, sig, f, a...) }
	copyOf := func(e dag.Event) (*copyEvent, *copyState) {
		ce, ok := e.(*copyEvent)
		if !ok {
			viol("buffer-callback", "buffer-callback/foreign-object", "callback received an event object that was never pushed")
		}
		return ce, copies[ce.copy]
	}
	buf = dagordering.New(limit, dagordering.Callback{
		Process: func(e dag.Event) error {
			ce, cs := copyOf(e)
			depth++
			if depth > maxDepth {
				maxDepth = depth
			}
			defer func() { depth-- }()
			c.Count("process_calls", 1)
			procCalls++
			for _, p := range evs[ce.ev].parents {
				if !connected[p] {
					viol("buffer-order", "buffer-order/parent-missing", "Process(e%d) while its parent e%d is not connected", ce.ev, p)
				}
			}
			if cs.released > 0 {
				viol("buffer-once", "buffer-once/process-after-release", "Process(e%d, copy %d from %s) after that copy was reported released (err=%v)", ce.ev, ce.copy, cs.peer, cs.relErr)
			}
			cs.processed++
			if cs.processed > 1 {
				viol("buffer-once", "buffer-once/process-twice", "Process(e%d, copy %d from %s) called %d times", ce.ev, ce.copy, cs.peer, cs.processed)
			}
			if failProc[ce.ev] {
				c.Probe("process_failure_injected")
				return errors.New("injected process failure")
			}
			connected[ce.ev] = true
			if sideConnect[ce.ev] {
				for ch := range evs {
					okp, isChild := true, false
					for _, p := range evs[ch].parents {
						if p == ce.ev {
							isChild = true
						}
						if !connected[p] {
							okp = false
						}
					}
					if isChild && okp && !connected[ch] {
						connected[ch] = true
						c.Probe("child_connected_by_another_route_during_process")
					}
				}
			}
			return nil
		},
		Released: func(e dag.Event, peer string, err error) {
			ce, cs := copyOf(e)
			cs.released++
			cs.relErr = err
			if cs.released > 1 {
				viol("buffer-release", "buffer-release/twice", "copy %d of e%d (from %s) reported released %d times", ce.copy, ce.ev, cs.peer, cs.released)
			}
			if peer != cs.peer {
				viol("buffer-release", "buffer-release/peer", "copy %d of e%d pushed by %s reported released for peer %s", ce.copy, ce.ev, cs.peer, peer)
			}
			if err == eventcheck.ErrSpilledEvent {
				c.Probe("spilled_by_limit")
			}
		},
		Get: func(h hash.Event) dag.Event {
			if i, ok := byID[h]; ok && connected[i] {
				return evs[i].base
			}
			return nil
		},
		Exists: func(h hash.Event) bool {
			i, ok := byID[h]
			return ok && connected[i]
		},
		Check: func(e dag.Event, parents dag.Events) error {
			ce, cs := copyOf(e)
			if cs.released > 0 {
				// the property speaks about handing a copy to processing; a repeated validation of an
				// already released copy is only counted
				c.Probe("check_called_on_released_copy")
			}
			if len(parents) != len(evs[ce.ev].base.Parents()) {
				viol("buffer-order", "buffer-order/parents-arg", "Check(e%d) received %d parents, the event lists %d", ce.ev, len(parents), len(evs[ce.ev].base.Parents()))
			}
			if failCheck[ce.ev] {
				c.Probe("check_failure_injected")
				return errors.New("injected check failure")
			}
			return nil
		},
	})

	pushedEv := map[int]int{}
	gen := func() (sim.Op, bool) {
		if peakExact {
			if !cleared {
				cleared = true
				return sim.Op{K: "clear"}, true
			}
			return sim.Op{}, false
		}
		if len(c.Trace.Ops) >= nPush {
			if !cleared {
				cleared = true
				return sim.Op{K: "clear"}, true
			}
			return sim.Op{}, false
		}
		if c.Chance("connect_outside", 60) {
			return sim.Op{K: "connect", A: []int64{int64(c.Pick("event", n))}}, true
		}
		if c.Chance("mid_clear", 40) {
			return sim.Op{K: "clear"}, true
		}
		return sim.Op{K: "push", A: []int64{int64(c.Pick("event", n)), int64(c.Pick("peer", 3))}}, true
	}
	for {
		var op sim.Op
		ok := true
		if len(pre) > 0 {
			op, pre = pre[0], pre[1:]
		} else {
			op, ok = c.Next(gen)
		}
		if !ok {
			break
		}
		c.SimTime(1)
		switch op.K {
		case "push":
			e := int(op.A[0]) % n
			peer := fmt.Sprintf("p%d", op.A[1])
			cs := &copyState{ev: e, peer: peer}
			copies = append(copies, cs)
			if pushedEv[e] > 0 {
				c.Probe("duplicate_copy_pushed")
			}
			pushedEv[e]++
			c.Count("pushes", 1)
			procBefore := procCalls
			buf.PushEvent(&copyEvent{Event: evs[e].base, ev: e, copy: len(copies) - 1}, peer)
			if procCalls-procBefore >= 2 {
				c.Probe("push_processed_2_or_more_events")
			}
			if procCalls-procBefore >= 3 {
				c.Probe("push_processed_3_or_more_events")
			}
			t := buf.Total()
			if t.Num > limit.Num || t.Size > limit.Size {
				viol("buffer-limit", "buffer-limit", "after PushEvent(e%d) the buffer holds %d events / %d bytes, limits are %d / %d", e, t.Num, t.Size, limit.Num, limit.Size)
			}
		case "connect":
			// the event becomes connected outside the buffer (e.g. processed through another path),
			// which is only meaningful when its parents are connected
			e := int(op.A[0]) % n
			okp := true
			for _, p := range evs[e].parents {
				if !connected[p] {
					okp = false
				}
			}
			if okp && !connected[e] {
				connected[e] = true
				c.Probe("connected_outside_buffer")
			}
		case "clear":
			buf.Clear()
			c.Count("clears", 1)
			if t := buf.Total(); t.Num != 0 || t.Size != 0 {
				viol("buffer-limit", "buffer-limit/after-clear", "after Clear the buffer holds %d events / %d bytes", t.Num, t.Size)
			}
			for i, cs := range copies {
				if cs.released != 1 {
					viol("buffer-release", "buffer-release/missing-after-clear", "after Clear copy %d of e%d (from %s) was reported released %d times", i, cs.ev, cs.peer, cs.released)
				}
			}
		}
	}
	_ = maxDepth
	// (e) ample limits, nothing fails, every event of the (parents-closed) set pushed: all processed
	if ample && len(failProc) == 0 && len(failCheck) == 0 && len(sideConnect) == 0 {
		all := true
		for i := 0; i < n; i++ {
			if pushedEv[i] == 0 {
				all = false
			}
		}
		midClear := 0
		for _, o := range c.Trace.Ops {
			if o.K == "clear" {
				midClear++
			}
			if o.K == "connect" {
				all = false // the claim is about events arriving through the buffer only
			}
		}
		if all && midClear <= 1 {
			for i := 0; i < n; i++ {
				if !connected[i] {
					viol("buffer-liveness", "buffer-liveness", "limits are ample, nothing fails and every event was pushed, but e%d was never processed", i)
				}
			}
			c.Probe("all_events_processed_with_ample_limits")
		}
	}
	if len(copies) >= 3 {
		c.MarkNontrivial()
	}
	c.State(sim.Mix(uint64(len(copies)), uint64(len(connected)), uint64(limNum)))
}
