module verif

go 1.23

require (
	github.com/Fantom-foundation/lachesis-base v0.0.0
	github.com/anishathalye/porcupine v1.3.0
	pgregory.net/rapid v1.3.0
)

require (
	github.com/emirpasic/gods v1.12.0 // indirect
	github.com/ethereum/go-ethereum v1.9.22 // indirect
	github.com/pkg/errors v0.9.1 // indirect
	github.com/status-im/keycard-go v0.0.0-20190424133014-d95853db0f48 // indirect
	golang.org/x/crypto v0.0.0-20200622213623-75b288015ac9 // indirect
)

replace github.com/Fantom-foundation/lachesis-base => /repo
