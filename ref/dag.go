// Package ref holds the naive reference models of the consensus properties: the DAG relations by
// graph definition (RefDAG) and the Lachesis rules (RefLachesis).  Nothing here imports the library
// under test or mirrors its data structures (no vector clocks, no branches, no caches of its kind).
package ref

import "sort"

// Bits is a growable bitset over event indices of one epoch.
type Bits []uint64

func (b Bits) Has(i int) bool { w := i >> 6; return w < len(b) && b[w]&(1<<(uint(i)&63)) != 0 }
func (b *Bits) Set(i int) {
	w := i >> 6
	for len(*b) <= w {
		*b = append(*b, 0)
	}
	(*b)[w] |= 1 << (uint(i) & 63)
}
func (b *Bits) Or(o Bits) {
	for len(*b) < len(o) {
		*b = append(*b, 0)
	}
	for i, x := range o {
		(*b)[i] |= x
	}
}
func (b Bits) Clone() Bits { c := make(Bits, len(b)); copy(c, b); return c }
func (b Bits) Count() int {
	n := 0
	for _, x := range b {
		for ; x != 0; x &= x - 1 {
			n++
		}
	}
	return n
}
func (b Bits) Each(f func(i int)) {
	for w, x := range b {
		for x != 0 {
			t := x & -x
			i := 0
			for y := t; y > 1; y >>= 1 {
				i++
			}
			f(w<<6 + i)
			x ^= t
		}
	}
}

// Validators in canonical order: descending weight, ties by ascending id (recomputed here).
type Validators struct {
	IDs    []uint32
	W      []uint64
	Total  uint64
	Quorum uint64
	pos    map[uint32]int
}

func NewValidators(ids []uint32, weights []uint64) *Validators {
	type vw struct {
		id uint32
		w  uint64
	}
	var a []vw
	for i, id := range ids {
		if weights[i] != 0 {
			a = append(a, vw{id, weights[i]})
		}
	}
	sort.Slice(a, func(i, j int) bool {
		if a[i].w != a[j].w {
			return a[i].w > a[j].w
		}
		return a[i].id < a[j].id
	})
	v := &Validators{pos: map[uint32]int{}}
	for i, x := range a {
		v.IDs = append(v.IDs, x.id)
		v.W = append(v.W, x.w)
		v.Total += x.w
		v.pos[x.id] = i
	}
	v.Quorum = 2*v.Total/3 + 1 // 64-bit: no overflow for totals < 2^62
	return v
}

func (v *Validators) Len() int { return len(v.IDs) }

// Pos returns the canonical index of a validator id, or -1.
func (v *Validators) Pos(id uint32) int {
	if p, ok := v.pos[id]; ok {
		return p
	}
	return -1
}

// Event of the reference DAG.  Parents are indices into DAG.E; Parents[0] is the self-parent
// exactly when Seq > 1 (the event format's definition).
type Event struct {
	I       int
	Creator uint32
	CI      int // canonical validator index
	Seq     uint32
	Lamport uint32
	Frame   uint32 // claimed frame
	Parents []int
	Self    int    // -1 if none
	Anc     Bits   // ancestors-or-self
	Forked  uint64 // bit ci set <=> two different events of validator ci with equal seq are in Anc
}

type DAG struct {
	V      *Validators
	E      []*Event
	bySeq  map[[2]uint32][]int // (creator, seq) -> events
	groups [][]int             // fork groups: lists (len>=2) of same-creator same-seq events
	grpOf  map[[2]uint32]int
	fc     map[[2]int]bool
	temp   int // index of a temporary event (not cached), or -1
}

func NewDAG(v *Validators) *DAG {
	return &DAG{V: v, bySeq: map[[2]uint32][]int{}, grpOf: map[[2]uint32]int{}, fc: map[[2]int]bool{}, temp: -1}
}

// Add appends an event whose parents are already present.
func (d *DAG) Add(creator, seq, lamport, frame uint32, parents []int) *Event {
	e := &Event{I: len(d.E), Creator: creator, CI: d.V.Pos(creator), Seq: seq, Lamport: lamport, Frame: frame,
		Parents: append([]int{}, parents...), Self: -1}
	if seq > 1 && len(parents) > 0 {
		e.Self = parents[0]
	}
	e.Anc.Set(e.I)
	for _, p := range parents {
		e.Anc.Or(d.E[p].Anc)
		e.Forked |= d.E[p].Forked
	}
	d.E = append(d.E, e)
	k := [2]uint32{creator, seq}
	d.bySeq[k] = append(d.bySeq[k], e.I)
	if n := len(d.bySeq[k]); n == 2 {
		d.grpOf[k] = len(d.groups)
		d.groups = append(d.groups, d.bySeq[k])
	} else if n > 2 {
		d.groups[d.grpOf[k]] = d.bySeq[k]
	}
	// forks visible in the ancestry: some group with two members among the ancestors-or-self
	for _, g := range d.groups {
		ci := d.E[g[0]].CI
		if ci < 0 || e.Forked&(1<<uint(ci)) != 0 {
			continue
		}
		n := 0
		for _, m := range g {
			if e.Anc.Has(m) {
				n++
			}
		}
		if n >= 2 {
			e.Forked |= 1 << uint(ci)
		}
	}
	return e
}

// ForkedBy reports whether a's ancestry shows a fork by validator with canonical index ci.
func (d *DAG) ForkedBy(a int, ci int) bool { return d.E[a].Forked&(1<<uint(ci)) != 0 }

// ForklessCause by graph definition (property C05).
func (d *DAG) ForklessCause(a, b int) bool {
	if a == d.temp || b == d.temp {
		return d.forklessCause(a, b)
	}
	k := [2]int{a, b}
	if r, ok := d.fc[k]; ok {
		return r
	}
	r := d.forklessCause(a, b)
	d.fc[k] = r
	return r
}

func (d *DAG) forklessCause(a, b int) bool {
	A, B := d.E[a], d.E[b]
	if B.CI >= 0 && A.Forked&(1<<uint(B.CI)) != 0 {
		return false
	}
	var seen uint64
	var w uint64
	A.Anc.Each(func(i int) {
		e := d.E[i]
		if e.CI < 0 || seen&(1<<uint(e.CI)) != 0 || A.Forked&(1<<uint(e.CI)) != 0 {
			return
		}
		if e.Anc.Has(b) { // e is a descendant-or-self of B and an ancestor-or-self of A
			seen |= 1 << uint(e.CI)
			w += d.V.W[e.CI]
		}
	})
	return w >= d.V.Quorum
}

// HighestSeq is the merged clock by definition (property C06): fork marker, or the highest
// sequence number of validator ci among a's ancestors-or-self (0 if none).
func (d *DAG) HighestSeq(a int, ci int) (seq uint32, fork bool) {
	A := d.E[a]
	if A.Forked&(1<<uint(ci)) != 0 {
		return 0, true
	}
	A.Anc.Each(func(i int) {
		if e := d.E[i]; e.CI == ci && e.Seq > seq {
			seq = e.Seq
		}
	})
	return seq, false
}

// Temp adds a candidate event, runs fn on its index and removes it again (speculative builds).
func (d *DAG) Temp(creator, seq, lamport uint32, parents []int, fn func(e int)) {
	if d.temp >= 0 {
		panic("ref: nested Temp")
	}
	d.temp = len(d.E)
	e := d.Add(creator, seq, lamport, 0, parents)
	fn(e.I)
	// undo
	d.E = d.E[:len(d.E)-1]
	k := [2]uint32{creator, seq}
	l := d.bySeq[k]
	l = l[:len(l)-1]
	if len(l) == 0 {
		delete(d.bySeq, k)
	} else {
		d.bySeq[k] = l
	}
	if gi, ok := d.grpOf[k]; ok {
		if len(l) >= 2 {
			d.groups[gi] = l
		} else {
			// the group was created by the temporary event: it is the last one
			d.groups = d.groups[:len(d.groups)-1]
			delete(d.grpOf, k)
		}
	}
	d.temp = -1
}
