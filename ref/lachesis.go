package ref

import (
	"errors"
	"fmt"
	"sort"
)

// ErrByzantine: the rules do not determine an outcome (only possible with >= 1/3 Byzantine weight).
var ErrByzantine = errors.New("ref: more than one third of the weight must be Byzantine")

type RootSlot struct {
	Ev    int
	Frame uint32
	CI    int
}

type Vote struct {
	Yes, Decided bool
	Observed     int // root of the subject that the yes-vote is for (-1 for "no")
}

type Block struct {
	Frame    uint32
	Atropos  int
	Cheaters []uint32 // validator ids in canonical order
}

const MaxFrameJump = 100

// Lachesis is the naive rule book over one epoch's DAG.  Root registrations are global facts of
// the event pool; what a particular instance "has" is passed in as a set.
type Lachesis struct {
	D     *DAG
	Roots map[uint32][]RootSlot // frame -> registered root slots (registration order)
	memo  map[voteKey]voteVal
}

type voteKey struct {
	d     uint32 // frame being decided
	ev    int    // voting root
	frame uint32 // slot of the voting root
	subj  int    // canonical index of the subject validator
}
type voteVal struct {
	v   Vote
	err error
}

func NewLachesis(d *DAG) *Lachesis {
	return &Lachesis{D: d, Roots: map[uint32][]RootSlot{}, memo: map[voteKey]voteVal{}}
}

// selfFrame is the self-parent's frame (0 without self-parent).
func (l *Lachesis) selfFrame(self int) uint32 {
	if self < 0 {
		return 0
	}
	return l.D.E[self].Frame
}

// quorumOn: is event e forkless-caused by roots of frame f whose creators hold a quorum?
func (l *Lachesis) quorumOn(e int, f uint32) bool {
	var seen uint64
	var w uint64
	for _, r := range l.Roots[f] {
		if seen&(1<<uint(r.CI)) != 0 {
			continue
		}
		if l.D.ForklessCause(e, r.Ev) {
			seen |= 1 << uint(r.CI)
			w += l.D.V.W[r.CI]
		}
	}
	return w >= l.D.V.Quorum
}

// AllowedFrames returns the inclusive range of frames event e (already added to the DAG, frame
// field ignored) may claim when it is processed: {1} without self-parent; otherwise from the
// self-parent's frame up, each step above it requiring a quorum of roots at the frame below.
// (No cap: the limit of 100 steps applies to building only, see BuildFrame.)
func (l *Lachesis) AllowedFrames(e int) (lo, hi uint32) {
	ev := l.D.E[e]
	if ev.Self < 0 {
		return 1, 1
	}
	s := l.selfFrame(ev.Self)
	f := s
	for l.quorumOn(e, f) {
		f++
	}
	return s, f
}

// BuildFrame is the frame Build has to assign given the allowed range: the highest allowed frame,
// at most MaxFrameJump above the self-parent's.
func BuildFrame(lo, hi uint32) uint32 {
	if hi > lo+MaxFrameJump {
		return lo + MaxFrameJump
	}
	return hi
}

// Register records the root slots of a valid event: one per frame above its self-parent's frame
// up to its own frame.
func (l *Lachesis) Register(e int) {
	ev := l.D.E[e]
	for f := l.selfFrame(ev.Self) + 1; f <= ev.Frame; f++ {
		l.Roots[f] = append(l.Roots[f], RootSlot{Ev: e, Frame: f, CI: ev.CI})
	}
}

// vote of root slot (ev, frame) about subject validator subj in the election of frame d.
func (l *Lachesis) vote(d uint32, ev int, frame uint32, subj int) (Vote, error) {
	k := voteKey{d, ev, frame, subj}
	if m, ok := l.memo[k]; ok {
		return m.v, m.err
	}
	v, err := l.voteCalc(d, ev, frame, subj)
	l.memo[k] = voteVal{v, err}
	return v, err
}

func (l *Lachesis) voteCalc(d uint32, ev int, frame uint32, subj int) (Vote, error) {
	if frame == d+1 {
		// first round: yes exactly when ev forkless-causes a root of the subject in frame d
		res := Vote{Observed: -1}
		for _, r := range l.Roots[d] {
			if r.CI == subj && l.D.ForklessCause(ev, r.Ev) {
				if res.Yes && res.Observed != r.Ev {
					return Vote{}, ErrByzantine
				}
				res.Yes, res.Observed = true, r.Ev
			}
		}
		return res, nil
	}
	var yes, no, all uint64
	var counted uint64
	obs := -1
	for _, r := range l.Roots[frame-1] {
		if !l.D.ForklessCause(ev, r.Ev) {
			continue
		}
		pv, err := l.vote(d, r.Ev, frame-1, subj)
		if err != nil {
			return Vote{}, err
		}
		if counted&(1<<uint(r.CI)) != 0 {
			return Vote{}, ErrByzantine // two roots of one validator in one frame both forkless-cause ev
		}
		counted |= 1 << uint(r.CI)
		all += l.D.V.W[r.CI]
		if pv.Yes {
			if obs >= 0 && obs != pv.Observed {
				return Vote{}, ErrByzantine
			}
			obs = pv.Observed
			yes += l.D.V.W[r.CI]
		} else {
			no += l.D.V.W[r.CI]
		}
	}
	if all < l.D.V.Quorum {
		return Vote{}, fmt.Errorf("ref: root %d@%d sees less than a quorum of previous roots", ev, frame)
	}
	res := Vote{Yes: yes >= no, Observed: -1}
	if res.Yes {
		res.Observed = obs
	}
	res.Decided = yes >= l.D.V.Quorum || no >= l.D.V.Quorum
	return res, nil
}

// Decide tries to decide frame d given the set `has` of events an instance holds.
// Returns nil when the rules do not yet determine the Atropos.
func (l *Lachesis) Decide(d uint32, has func(int) bool) (*Block, error) {
	n := l.D.V.Len()
	// frames with at least one held root above d
	var frames []uint32
	for f := range l.Roots {
		if f > d+1 {
			frames = append(frames, f)
		}
	}
	sort.Slice(frames, func(i, j int) bool { return frames[i] < frames[j] })
	for subj := 0; subj < n; subj++ {
		decided, val := false, Vote{}
		for _, f := range frames {
			for _, r := range l.Roots[f] {
				if !has(r.Ev) {
					continue
				}
				v, err := l.vote(d, r.Ev, f, subj)
				if err != nil {
					return nil, err
				}
				if v.Decided {
					if decided && (val.Yes != v.Yes || val.Observed != v.Observed) {
						return nil, ErrByzantine
					}
					decided, val = true, v
				}
			}
		}
		if !decided {
			return nil, nil
		}
		if val.Yes {
			at := val.Observed
			b := &Block{Frame: d, Atropos: at}
			for ci, id := range l.D.V.IDs {
				if l.D.ForkedBy(at, ci) {
					b.Cheaters = append(b.Cheaters, id)
				}
			}
			return b, nil
		}
	}
	return nil, ErrByzantine // everybody decided "no"
}
