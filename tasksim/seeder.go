//go:build go1.25

package tasksim

import (
	"fmt"
	"time"

	"github.com/Fantom-foundation/lachesis-base/gossip/basestream"
	"github.com/Fantom-foundation/lachesis-base/gossip/basestream/basestreamseeder"

	"verif/sim"
)

// ---- C17: stream seeder serves each session in order, once, within limits --------------------------

type loc int

func (l loc) Compare(b basestream.Locator) int {
	o := b.(loc)
	switch {
	case l < o:
		return -1
	case l > o:
		return 1
	}
	return 0
}
func (l loc) Inc() basestream.Locator { return l + 1 }

type payload struct {
	keys  []int
	sizes []int
}

func (p *payload) Len() int { return len(p.keys) }
func (p *payload) TotalSize() uint64 {
	var s uint64
	for _, x := range p.sizes {
		s += uint64(x)
	}
	return s
}
func (p *payload) TotalMemSize() int { return 16 + 8*len(p.keys) + int(p.TotalSize()) }

// session incarnation as the model sees it
type sessModel struct {
	sid         int
	start, stop int
	next        int  // next key expected in a response
	done        bool // a response marked done was observed
	mayRestart  bool // the model lost track (pruned / unregistered id re-used): the first response decides
	responses   int
	requested   int // chunks requested in total (informative)
}

type reqRec struct {
	peer, sid     int
	chunks        int
	num           int
	size          uint64
	got           int
	sawDone       bool
	expectNothing string // non-empty: why no response is expected
	optional      bool   // the session was pruned / its peer unregistered after the request: it may or may not be served
	sess          *sessModel
}

func RunSeeder(c *sim.Ctx) {
	knob := func(name string, lo, hi int) int {
		return int(c.Knob(name, func() int64 { return int64(c.Int(name, lo, hi)) }))
	}
	nItems := knob("items", 0, 40)
	sizes := make([]int, nItems)
	for i := range sizes {
		sizes[i] = knob(fmt.Sprintf("size%d", i), 1, 9)
	}
	nPeers := knob("peers", 1, 3)
	threads := knob("sender_threads", 1, 3)
	maxNum := knob("max_response_payload_num", 1, 8)
	maxSize := knob("max_response_payload_size", 4, 40)
	maxChunks := knob("max_response_chunks", 1, 6)
	pendingLimit := int64(knob("max_pending_responses_size", 20, 400))
	slowMs := knob("slow_send_ms", 0, 30)
	nOps := knob("ops", 1, 20)
	c.ProbeDecl("session_resumed", "fourth_session_prunes_oldest", "resume_while_holding_three", "selector_mismatch", "too_many_chunks", "session_finished", "request_after_done", "unregister_with_sessions", "pending_limit_reached", "request_while_responses_in_flight")

	// ---- plan ----
	type peerGen struct {
		live  []int
		start map[int]int
		used  int
	}
	pg := make([]*peerGen, nPeers)
	for i := range pg {
		pg[i] = &peerGen{start: map[int]int{}}
	}
	var plan []stim
	at := time.Duration(0)
	gen := func() (sim.Op, bool) {
		if len(c.Trace.Ops) >= nOps {
			return sim.Op{}, false
		}
		at = uniqueAt(at, time.Duration(c.Int("gap_ms", 0, 200))*time.Millisecond, len(c.Trace.Ops))
		peer := c.Pick("peer", nPeers)
		g := pg[peer]
		if c.Chance("unregister", 70) {
			g.live = nil
			return sim.Op{K: "unregister", A: []int64{int64(at), int64(peer), 1}}, true
		}
		var sid, start, stop int
		drain := int64(0)
		switch {
		case len(g.live) > 0 && c.Chance("resume", 600):
			sid = g.live[c.Pick("session", len(g.live))]
			start = g.start[sid]
			if c.Chance("mismatch", 50) {
				start++
			}
		case g.used > 0 && c.Chance("reuse_old_id", 150):
			sid = c.Pick("old_session", g.used) // possibly pruned or forgotten: a new incarnation may start
			start = c.Int("start", 0, nItems)
			if s, ok := g.start[sid]; ok && c.Bool("same_start") {
				start = s
			}
			drain = 1
		default:
			sid = g.used
			g.used++
			start = c.Int("start", 0, nItems)
		}
		stop = start + c.Int("span", 0, nItems-start+2)
		known := false
		for _, l := range g.live {
			if l == sid {
				known = true
			}
		}
		if !known {
			if len(g.live) == 3 {
				g.live = g.live[1:]
			}
			g.live = append(g.live, sid)
			g.start[sid] = start
		}
		if c.Chance("drain_first", 300) {
			drain = 1
		}
		return sim.Op{K: "request", A: []int64{int64(at), int64(peer), drain, int64(sid), int64(start), int64(stop),
			int64(c.Int("max_num", 0, maxNum+2)), int64(c.Int("max_size", 0, maxSize+10)), int64(c.Int("chunks", 1, maxChunks+1))}}, true
	}
	for {
		op, ok := c.Next(gen)
		if !ok {
			break
		}
		if len(op.A) < 3 {
			continue
		}
		plan = append(plan, stim{at: time.Duration(op.A[0]), op: op})
	}
	if len(plan) == 0 {
		return
	}

	rec := &recorder{}
	probes := newProbes()
	var simEnd time.Duration
	trouble := runBubble(c.T, func() {
		start := time.Now()
		now := func() time.Duration { return time.Since(start) }
		cfg := basestreamseeder.Config{SenderThreads: threads, MaxSenderTasks: 64, MaxPendingResponsesSize: pendingLimit,
			MaxResponsePayloadNum: uint32(maxNum), MaxResponsePayloadSize: uint64(maxSize), MaxResponseChunks: uint32(maxChunks)}
		var seeder *basestreamseeder.BaseSeeder
		seeder = basestreamseeder.New(cfg, basestreamseeder.Callbacks{
			ForEachItem: func(st basestream.Locator, _ basestream.RequestType, onKey func(basestream.Locator) bool, onAppended func(basestream.Payload) bool) basestream.Payload {
				p := &payload{}
				for k := int(st.(loc)); k < nItems; k++ {
					if !onKey(loc(k)) {
						break
					}
					p.keys = append(p.keys, k)
					p.sizes = append(p.sizes, sizes[k])
					if !onAppended(p) {
						break
					}
				}
				return p
			},
		})
		// ---- model ----
		type peerModel struct {
			live []*sessModel // oldest first, at most three
			gone map[int]bool // ids that were pruned or unregistered at some time
		}
		peers := make([]*peerModel, nPeers)
		for i := range peers {
			peers[i] = &peerModel{gone: map[int]bool{}}
		}
		var ml modelLock
		var reqs []*reqRec
		pendingReq := map[[2]int][]*reqRec{} // (peer, sid) -> requests whose responses are still expected, in order
		maxOne := int64(0)                   // largest response memory size seen
		misbehaviours := 0
		expectedMisb := 0

		checkPending := func(where string) {
			p := seeder.VerifPendingResponsesSize()
			if p >= pendingLimit {
				probes.inc("pending_limit_reached")
			}
			bound := pendingLimit + int64(16+8*(maxNum+1)+maxSize+9)
			if p > bound {
				rec.violation("seeder-pending", "seeder-pending", "%s t=%v: %d bytes of responses are pending, the limit is %d (+ one response of at most %d)", where, now(), p, pendingLimit, bound-pendingLimit)
			}
			_ = maxOne
		}

		mkPeer := func(pi int) basestreamseeder.Peer {
			return basestreamseeder.Peer{
				ID: fmt.Sprintf("p%d", pi),
				SendChunk: func(r basestream.Response) error {
					if slowMs > 0 {
						time.Sleep(time.Duration(slowMs) * time.Millisecond)
					}
					checkPending("in SendChunk")
					if rec.failed() {
						return nil
					}
					ml.mu.Lock()
					defer ml.mu.Unlock()
					sid := int(r.SessionID)
					if c.Replaying() {
						fmt.Printf("  | t=%v SendChunk p%d sid=%d keys=%v done=%v\n", now(), pi, sid, r.Payload.(*payload).keys, r.Done)
					}
					q := pendingReq[[2]int{pi, sid}]
					if c.Replaying() {
						for _, x := range q {
							fmt.Printf("  |     outstanding: chunks=%d got=%d optional=%v sessdone=%v start=%d\n", x.chunks, x.got, x.optional, x.sess.done, x.sess.start)
						}
					}
					if len(q) == 0 {
						rec.violation("seeder-extra", "seeder-extra/unrequested", "t=%v: response for session %d sent to p%d although no request is outstanding for it", now(), sid, pi)
						return nil
					}
					rq := q[0]
					// optional requests (their session was pruned / unregistered meanwhile) that evidently were not
					// served are skipped: the response belongs to the first request it can belong to
					for rq.optional && len(q) > 1 {
						pl0 := r.Payload.(*payload)
						if !rq.sess.done && (len(pl0.keys) == 0 || pl0.keys[0] == rq.sess.next) && q[1].sess == rq.sess {
							break
						}
						if !rq.sess.done && len(pl0.keys) > 0 && pl0.keys[0] == rq.sess.next && q[1].sess != rq.sess && (len(pl0.keys) == 0 || pl0.keys[0] != q[1].sess.next) {
							break
						}
						q = q[1:]
						pendingReq[[2]int{pi, sid}] = q
						rq = q[0]
					}
					s := rq.sess
					pl := r.Payload.(*payload)
					if rq.expectNothing != "" {
						rec.violation("seeder-extra", "seeder-extra/"+rq.expectNothing, "t=%v: response for session %d of p%d although the request must not be served (%s)", now(), sid, pi, rq.expectNothing)
						return nil
					}
					if s.done {
						rec.violation("seeder-done", "seeder-done/response-after-done", "t=%v: session %d of p%d: response with %v after the response marked done", now(), sid, pi, pl.keys)
						return nil
					}
					// contiguity: the payload continues exactly where the session stood
					if s.mayRestart && len(pl.keys) > 0 {
						// the model lost track of this id (pruned / unregistered): accept a restart or a continuation
						if pl.keys[0] == s.start {
							s.next = s.start
						}
						s.mayRestart = false
					}
					exp := s.next
					for _, k := range pl.keys {
						if k != exp {
							what := "gap"
							if k < exp {
								what = "repeat"
							}
							rec.violation("seeder-order", "seeder-order/"+what, "t=%v: session %d of p%d [%d,%d): response carries items %v, the next item due is %d (%s)", now(), sid, pi, s.start, s.stop, pl.keys, s.next, what)
							return nil
						}
						if k >= s.stop {
							rec.violation("seeder-order", "seeder-order/beyond-stop", "t=%v: session %d of p%d [%d,%d): response carries item %d", now(), sid, pi, s.start, s.stop, k)
							return nil
						}
						exp++
					}
					s.next = exp
					// limits: at most one item beyond the requested count / size
					num, size := rq.num, rq.size
					if len(pl.keys) > num+1 || (len(pl.keys) > 0 && pl.TotalSize()-uint64(pl.sizes[len(pl.sizes)-1]) >= size && len(pl.keys) > 1) {
						rec.violation("seeder-limit", "seeder-limit", "t=%v: session %d of p%d: response with %d items / %d bytes exceeds the limits %d items / %d bytes by more than one item", now(), sid, pi, len(pl.keys), pl.TotalSize(), num, size)
						return nil
					}
					rq.got++
					s.responses++
					if rq.got > rq.chunks {
						rec.violation("seeder-extra", "seeder-extra/more-than-chunks", "t=%v: session %d of p%d: %d responses for a request of %d chunks", now(), sid, pi, rq.got, rq.chunks)
						return nil
					}
					if r.Done {
						// done only when everything up to stop (or the end of the items) was sent
						end := s.stop
						if end > nItems {
							end = nItems
						}
						if s.next < end {
							rec.violation("seeder-done", "seeder-done/early", "t=%v: session %d of p%d [%d,%d) marked done after item %d", now(), sid, pi, s.start, s.stop, s.next-1)
							return nil
						}
						s.done = true
						rq.sawDone = true
						probes.inc("session_finished")
					}
					if rq.got == rq.chunks || r.Done {
						pendingReq[[2]int{pi, sid}] = q[1:]
					}
					return nil
				},
				Misbehaviour: func(err error) { ml.do(func() { misbehaviours++ }) },
			}
		}
		seeder.Start()

		var outstanding func() bool
		drain := func() {
			// idle = the model expects no further response and nothing is pending, for 3 polls of the reader's
			// 10 ms wait loop (a reader in the middle of a multi-chunk request shows pending == 0 between chunks)
			for i, stable := 0, 0; i < 4000 && stable < 3; i++ {
				settle(15 * time.Millisecond)
				if seeder.VerifPendingResponsesSize() == 0 && !outstanding() {
					stable++
				} else {
					stable = 0
				}
			}
		}
		outstanding = func() bool {
			ml.mu.Lock()
			defer ml.mu.Unlock()
			for _, q := range pendingReq {
				for _, r := range q {
					if r.expectNothing == "" && !r.optional && !(r.sess.done) {
						return true
					}
				}
			}
			return false
		}
		fire := func(s stim, t time.Duration) {
			if rec.failed() {
				return
			}
			pi := int(s.op.A[1]) % nPeers
			pm := peers[pi]
			if c.Replaying() {
				fmt.Printf("  | t=%v fire %s %v\n", t, s.op.K, s.op.A[1:])
			}
			if s.op.A[2] == 1 {
				drain()
			} else if outstanding() {
				probes.inc("request_while_responses_in_flight")
			}
			switch s.op.K {
			case "unregister":
				ml.do(func() {
					if len(pm.live) > 0 {
						probes.inc("unregister_with_sessions")
					}
					for _, sm := range pm.live {
						pm.gone[sm.sid] = true
					}
					pm.live = nil
					// requests still queued for this peer's sessions may or may not be served any more
					for k, q := range pendingReq {
						if k[0] == pi {
							for _, r := range q {
								r.optional = true
							}
						}
					}
				})
				_ = seeder.UnregisterPeer(fmt.Sprintf("p%d", pi))
				settle(time.Millisecond) // the idle reader takes the unregistration before the next stimulus is queued
			case "request":
				if len(s.op.A) < 9 {
					return
				}
				sid, st, sp := int(s.op.A[3]), int(s.op.A[4]), int(s.op.A[5])
				num, size, chunks := int(s.op.A[6]), uint64(s.op.A[7]), int(s.op.A[8])
				// a request that opens a session (and may prune another one of the same peer) is only sent when none
				// of that peer's earlier requests is still being served: the model applies it at call time, which is
				// right only if the reader is not lagging behind for this peer; requests that resume a live session,
				// and requests of other peers, may arrive while responses are still in flight
				creates := true
				busy := false // requests of this very peer still being served?
				ml.do(func() {
					for _, l := range pm.live {
						if l.sid == sid {
							creates = false
						}
					}
					for k, q := range pendingReq {
						if k[0] != pi {
							continue
						}
						for _, r := range q {
							if r.expectNothing == "" && !r.optional && !r.sess.done {
								busy = true
							}
						}
					}
				})
				if creates && busy && s.op.A[2] != 1 {
					drain()
				}
				rq := &reqRec{peer: pi, sid: sid, chunks: chunks, num: num, size: size}
				if rq.num > maxNum {
					rq.num = maxNum
				}
				if rq.size > uint64(maxSize) {
					rq.size = uint64(maxSize)
				}
				notify := func() (error, error) {
					return seeder.NotifyRequestReceived(mkPeer(pi), basestream.Request{
						Session: basestream.Session{ID: uint32(sid), Start: loc(st), Stop: loc(sp)}, MaxPayloadNum: uint32(num), MaxPayloadSize: size, MaxChunks: uint32(chunks)})
				}
				if chunks > maxChunks {
					probes.inc("too_many_chunks")
					err, peerErr := notify()
					if err != nil {
						rec.violation("seeder-error", "seeder-error", "NotifyRequestReceived: %v", err)
					} else if peerErr == nil {
						rec.violation("seeder-limit", "seeder-limit/too-many-chunks-accepted", "request for %d chunks accepted, the configured maximum is %d", chunks, maxChunks)
					}
					return
				}
				// the model takes the request before the call: the seeder's reader and senders may run (and answer)
				// while NotifyRequestReceived is still handing the request over
				ml.mu.Lock()
				var sm *sessModel
				for _, l := range pm.live {
					if l.sid == sid {
						sm = l
					}
				}
				if sm != nil {
					probes.inc("session_resumed")
					if len(pm.live) == 3 {
						probes.inc("resume_while_holding_three")
					}
					if sm.start != st {
						probes.inc("selector_mismatch")
						expectedMisb++
						rq.expectNothing = "selector mismatch"
					}
					if sm.done {
						probes.inc("request_after_done")
					}
				} else {
					if len(pm.live) == 3 {
						probes.inc("fourth_session_prunes_oldest")
						pm.gone[pm.live[0].sid] = true
						// requests still outstanding for the pruned session need not be served any more
						for _, r := range pendingReq[[2]int{pi, pm.live[0].sid}] {
							r.optional = true
						}
						pm.live = pm.live[1:]
					}
					sm = &sessModel{sid: sid, start: st, stop: sp, next: st}
					if pm.gone[sid] {
						// an id the seeder may or may not remember: cannot be a resume in the model, but the
						// property does not forbid the seeder to still know it if the start matches
						sm.mayRestart = false
					}
					pm.live = append(pm.live, sm)
				}
				rq.sess = sm
				sm.requested += chunks
				reqs = append(reqs, rq)
				if rq.expectNothing == "" && !sm.done {
					pendingReq[[2]int{pi, sid}] = append(pendingReq[[2]int{pi, sid}], rq)
				}
				// a request that must not be served (changed start, session already done) is not queued: a
				// response without an outstanding request is reported as such
				ml.mu.Unlock()
				err, peerErr := notify()
				if err != nil {
					rec.violation("seeder-error", "seeder-error", "NotifyRequestReceived: %v", err)
					return
				}
				if peerErr != nil {
					rec.violation("seeder-error", "seeder-error/peer", "request refused: %v", peerErr)
					return
				}
			}
		}
		drive(plan, fire, func(time.Duration) { checkPending("at quiescence") })
		drain()
		settle(2 * time.Second)
		drain()
		// ---- every served request got all its chunks or ended with done ----
		if !rec.failed() {
			ml.mu.Lock()
			if misbehaviours != expectedMisb {
				rec.violation("seeder-misbehaviour", "seeder-misbehaviour", "Misbehaviour reported %d times, %d requests changed the start of a live session", misbehaviours, expectedMisb)
			}
			for k, q := range pendingReq {
				for _, rq := range q {
					if rq.expectNothing != "" || rq.sess.done || rq.optional {
						continue
					}
					rec.violation("seeder-liveness", "seeder-liveness", "session %d of p%d [%d,%d): a request for %d chunks received %d responses and none was marked done (next item due: %d)", k[1], k[0], rq.sess.start, rq.sess.stop, rq.chunks, rq.got, rq.sess.next)
				}
			}
			ml.mu.Unlock()
		}
		simEnd = now()
		seeder.Stop()
	})
	for k, v := range probes.snapshot() {
		for i := 0; i < v; i++ {
			c.Probe(k)
		}
	}
	c.SimTime(int64(simEnd / time.Millisecond))
	finish(c, rec, trouble, "seeder-hang", "seeder-hang")
	if len(plan) >= 3 {
		c.MarkNontrivial()
	}
	c.State(sim.Mix(uint64(len(plan)), uint64(nItems), uint64(nPeers)))
}
