//go:build go1.25

package tasksim

import (
	"errors"
	"fmt"
	"time"

	"github.com/Fantom-foundation/lachesis-base/eventcheck"
	"github.com/Fantom-foundation/lachesis-base/gossip/dagprocessor"
	"github.com/Fantom-foundation/lachesis-base/hash"
	"github.com/Fantom-foundation/lachesis-base/inter/dag"
	"github.com/Fantom-foundation/lachesis-base/inter/idx"
	"github.com/Fantom-foundation/lachesis-base/utils/datasemaphore"

	"verif/sim"
)

// ---- C15: event processor releases every event and balances its semaphore -------------------------

type pcopy struct {
	dag.Event
	ev, batch, pos int
}

type pbatch struct {
	id       int
	at       time.Duration
	peer     string
	ordered  bool
	events   []int
	delays   []time.Duration // checker delay per position
	checkErr []bool
	copies   []*pcopy
	enqErr   error
	returned bool
	doneAt   time.Duration // -1 until the done callback fired
	released []int
	touch    []int // log index of the first touch (initial push or pre-check release) per position
}

func RunProcessor(c *sim.Ctx) {
	knob := func(name string, lo, hi int) int {
		return int(c.Knob(name, func() int64 { return int64(c.Int(name, lo, hi)) }))
	}
	n := knob("events", 2, 12)
	c.ProbeDecl("enqueue_blocked_on_semaphore", "enqueue_err_busy", "stop_with_batches_in_flight", "far_future_event_dropped", "ordered_batch_with_reordering_checker", "event_spilled_by_buffer", "all_batches_done_and_balanced", "duplicate_event_in_flight", "run_with_lamport_claim_2^31_ahead", "stop_right_after_start_and_enqueue", "child_connected_by_another_route_during_process")
	type evd struct {
		parents  []int
		lamport  int
		chain    int // the Lamport time children continue from
		base     *dag.BaseEvent
		farAhead bool
	}
	evs := make([]*evd, n)
	hugeClaims := 0
	for i := 0; i < n; i++ {
		e := &evd{}
		np := knob(fmt.Sprintf("nparents%d", i), 0, 2)
		seen := map[int]bool{}
		for j := 0; j < np && i > 0; j++ {
			p := knob(fmt.Sprintf("parent%d_%d", i, j), 0, i-1)
			if !seen[p] {
				seen[p] = true
				e.parents = append(e.parents, p)
			}
		}
		e.lamport = 1
		for _, p := range e.parents {
			if evs[p].chain+1 > e.lamport {
				e.lamport = evs[p].chain + 1
			}
		}
		switch knob(fmt.Sprintf("far%d", i), 0, 11) {
		case 0:
			e.lamport += knob(fmt.Sprintf("far_by%d", i), 1, 30) // claims a Lamport time far ahead (nothing checks it here)
			e.farAhead = true
		case 1:
			// an extreme claim: around 2^31 above, or the largest value there is (children continue from the value before the jump)
			e.chain = e.lamport
			e.lamport = []int{1<<31 - 1, 1 << 31, 1<<31 + e.lamport, 3000000000, 1<<32 - 1}[knob(fmt.Sprintf("huge%d", i), 0, 4)]
			e.farAhead = true
			hugeClaims++
		}
		if e.chain == 0 {
			e.chain = e.lamport
		}
		me := &dag.MutableBaseEvent{}
		me.SetEpoch(1)
		me.SetSeq(idx.Event(i + 1))
		me.SetCreator(1)
		me.SetLamport(idx.Lamport(e.lamport))
		me.SetFrame(1)
		var ps hash.Events
		for _, p := range e.parents {
			ps = append(ps, evs[p].base.ID())
		}
		me.SetParents(ps)
		var rid [24]byte
		rid[0], rid[1] = byte(i+1), 0xc1
		e.base = me.Build(rid)
		evs[i] = e
	}
	byID := map[hash.Event]int{}
	for i, e := range evs {
		byID[e.base.ID()] = i
	}
	bufNum := knob("buffer_events", 0, n+2)
	bufSize := uint64(knob("buffer_bytes_in_events", 1, n+2)) * 200
	semNum := knob("semaphore_events", 1, 2*n)
	semSize := uint64(knob("semaphore_bytes_in_events", 1, 2*n)) * 200
	semTimeout := time.Duration([]int{100, 1000, 5000, 0}[knob("semaphore_timeout", 0, 3)]) * time.Millisecond
	maxTasks := knob("max_tasks", 1, 6)
	failProc := map[int]bool{}
	for j := 0; j < knob("failing_process", 0, 2); j++ {
		failProc[knob(fmt.Sprintf("fail_process%d", j), 0, n-1)] = true
	}
	nb := knob("batches", 1, 6)
	batches := make([]*pbatch, nb)
	at := time.Duration(0)
	for b := 0; b < nb; b++ {
		at = uniqueAt(at, time.Duration(knob(fmt.Sprintf("gap_ms%d", b), 0, 400))*time.Millisecond, b)
		pb := &pbatch{id: b, at: at, peer: fmt.Sprintf("p%d", knob(fmt.Sprintf("peer%d", b), 0, 2)), ordered: knob(fmt.Sprintf("ordered%d", b), 0, 1) == 1, doneAt: -1}
		k := knob(fmt.Sprintf("size%d", b), 1, 5)
		mode := knob(fmt.Sprintf("mode%d", b), 0, 2) // 0 random events, 1 a run of consecutive events (parents mostly inside), 2 reversed run
		first := knob(fmt.Sprintf("first%d", b), 0, n-1)
		for j := 0; j < k; j++ {
			var e int
			switch mode {
			case 0:
				e = knob(fmt.Sprintf("ev%d_%d", b, j), 0, n-1)
			case 1:
				e = (first + j) % n
			default:
				e = (first + k - 1 - j + n) % n
			}
			pb.events = append(pb.events, e)
			pb.delays = append(pb.delays, time.Duration(knob(fmt.Sprintf("delay%d_%d", b, j), 0, 50))*time.Millisecond+time.Duration(b*16+j+1)*time.Microsecond)
			pb.checkErr = append(pb.checkErr, knob(fmt.Sprintf("checkerr%d_%d", b, j), 0, 7) == 0)
		}
		pb.released = make([]int, len(pb.events))
		pb.touch = make([]int, len(pb.events))
		for j := range pb.touch {
			pb.touch[j] = -1
		}
		batches[b] = pb
	}
	// events that occur exactly once over all batches: their way through the processor is attributable
	type bp struct{ b, pos int }
	occ := map[int][]bp{}
	for _, b := range batches {
		for j, e := range b.events {
			occ[e] = append(occ[e], bp{b.id, j})
		}
	}
	slowHL := time.Duration(knob("slow_highest_lamport_ms", 0, 3)) * 5 * time.Millisecond // a slow application callback: lets Stop land inside the inserter
	// (callbacks that the ordering buffer invokes under its mutex must not sleep: a goroutine blocked on a
	// sync.Mutex is not durably blocked and the bubble's clock could not advance)
	syncChecker := knob("checker_answers_synchronously", 0, 3) == 0
	outsideRoute := knob("events_also_arrive_by_another_route", 0, 3) == 0
	burst := knob("start_enqueue_stop_without_yielding", 0, 7) == 0 // batch 0 is enqueued and the processor stopped right after Start, on one goroutine
	stopMode := knob("stop_mode", 0, 1)                             // 0 after quiescence, 1 at a drawn instant
	stopAt := time.Duration(knob("stop_at_ms", 0, 1500)) * time.Millisecond
	// the plan is the knob list; one op marks its end so that the trace is never empty
	c.Next(func() (sim.Op, bool) {
		if len(c.Trace.Ops) > 0 {
			return sim.Op{}, false
		}
		return sim.Op{K: "run"}, true
	})

	rec := &recorder{}
	probes := newProbes()
	if hugeClaims > 0 {
		probes.inc("run_with_lamport_claim_2^31_ahead")
	}
	var simEnd time.Duration
	trouble := runBubble(c.T, func() {
		start := time.Now()
		now := func() time.Duration { return time.Since(start) }
		var ml modelLock
		capacity := dag.Metric{Num: idx.Event(semNum), Size: semSize}
		warned := 0
		sem := datasemaphore.New(capacity, func(dag.Metric, dag.Metric, dag.Metric) { ml.do(func() { warned++ }) })
		connected := map[int]bool{}
		highest := func() idx.Lamport {
			h := 0
			for i := range connected {
				if evs[i].lamport > h {
					h = evs[i].lamport
				}
			}
			return idx.Lamport(h)
		}
		lastHL := idx.Lamport(0)
		logN := 0
		var procOrder []*pcopy
		var acquired, releasedM dag.Metric
		stopping, stopped := false, false
		inflight := 0
		copyOf := func(e dag.Event) *pcopy {
			pc, ok := e.(*pcopy)
			if !ok {
				rec.violation("proc-callback", "proc-callback/foreign-object", "callback received an event object that was never enqueued")
				return nil
			}
			return pc
		}
		touch := func(pc *pcopy) {
			b := batches[pc.batch]
			if b.touch[pc.pos] < 0 {
				b.touch[pc.pos] = logN
			}
			logN++
		}
		limit := dag.Metric{Num: idx.Event(bufNum), Size: bufSize}
		var proc *dagprocessor.Processor
		proc = dagprocessor.New(sem, dagprocessor.Config{EventsBufferLimit: limit, EventsSemaphoreTimeout: semTimeout, MaxTasks: maxTasks}, dagprocessor.Callback{
			Event: dagprocessor.EventCallback{
				Process: func(e dag.Event) error {
					pc := copyOf(e)
					if pc == nil {
						return nil
					}
					ml.mu.Lock()
					defer ml.mu.Unlock()
					for _, p := range evs[pc.ev].parents {
						if !connected[p] {
							rec.violation("proc-order", "proc-order/parent-missing", "Process(e%d) while parent e%d is not connected", pc.ev, p)
						}
					}
					if batches[pc.batch].released[pc.pos] > 0 {
						rec.violation("proc-release", "proc-release/process-after-release", "Process(e%d of batch %d) after its release", pc.ev, pc.batch)
					}
					procOrder = append(procOrder, pc)
					if failProc[pc.ev] {
						return errors.New("injected process failure")
					}
					connected[pc.ev] = true
					if outsideRoute {
						// the application's store also learns events from elsewhere: while this event is being processed, a child
						// whose parents are all connected now arrives by that other route (the buffer may still hold its copy)
						for ci, ce := range evs {
							if connected[ci] || len(ce.parents) == 0 || ce.lamport >= 1<<31 || sim.Mix(uint64(ci), uint64(pc.ev), uint64(len(procOrder)))%3 != 0 {
								// (an event with an absurd Lamport claim is not something an application accepts from any route)
								continue
							}
							isChild, all := false, true
							for _, p := range ce.parents {
								if p == pc.ev {
									isChild = true
								}
								if !connected[p] {
									all = false
								}
							}
							if isChild && all {
								connected[ci] = true
								probes.inc("child_connected_by_another_route_during_process")
							}
						}
					}
					return nil
				},
				Released: func(e dag.Event, peer string, err error) {
					pc := copyOf(e)
					if pc == nil {
						return
					}
					ml.mu.Lock()
					defer ml.mu.Unlock()
					b := batches[pc.batch]
					if len(occ[pc.ev]) == 1 {
						touch(pc)
					} else {
						logN++
					}
					b.released[pc.pos]++
					releasedM.Num++
					releasedM.Size += uint64(e.Size())
					if b.released[pc.pos] > 1 {
						rec.violation("proc-release", "proc-release/twice", "event e%d (batch %d position %d) reported released %d times", pc.ev, pc.batch, pc.pos, b.released[pc.pos])
					}
					if peer != b.peer {
						rec.violation("proc-release", "proc-release/peer", "event of batch %d from %s released for peer %s", pc.batch, b.peer, peer)
					}
					if err == eventcheck.ErrSpilledEvent {
						if uint64(evs[pc.ev].lamport) > uint64(lastHL)+1+uint64(bufNum) {
							probes.inc("far_future_event_dropped")
						} else {
							probes.inc("event_spilled_by_buffer")
						}
					}
					if err == eventcheck.ErrDuplicateEvent {
						probes.inc("duplicate_event_in_flight")
					}
				},
				Get: func(h hash.Event) dag.Event {
					ml.mu.Lock()
					defer ml.mu.Unlock()
					if i, ok := byID[h]; ok && connected[i] {
						return evs[i].base
					}
					return nil
				},
				Exists: func(h hash.Event) bool {
					// called by the ordering buffer with the pushed event's own id: the (re-)push is observable here
					ml.mu.Lock()
					defer ml.mu.Unlock()
					i, ok := byID[h]
					if ok && uint64(evs[i].lamport) > uint64(lastHL)+1+uint64(bufNum) {
						rec.violation("proc-far-future", "proc-far-future", "event e%d with Lamport %d reached the ordering buffer although the highest known Lamport time was %d and the buffer limit is %d events", i, evs[i].lamport, lastHL, bufNum)
					}
					if ok && len(occ[i]) == 1 {
						if b := batches[occ[i][0].b]; b.touch[occ[i][0].pos] < 0 {
							b.touch[occ[i][0].pos] = logN
						}
					}
					logN++
					return ok && connected[i]
				},
				CheckParents: func(e dag.Event, parents dag.Events) error { return nil },
				CheckParentless: func(e dag.Event, checked func(error)) {
					pc := copyOf(e)
					if pc == nil {
						checked(nil)
						return
					}
					b := batches[pc.batch]
					var err error
					if b.checkErr[pc.pos] {
						err = errors.New("injected check failure")
					}
					d := b.delays[pc.pos]
					if syncChecker {
						checked(err) // the application checks on the caller's goroutine (as the library's own tests do)
						return
					}
					go func() {
						time.Sleep(d)
						checked(err)
					}()
				},
			},
			HighestLamport: func() idx.Lamport {
				var v idx.Lamport
				ml.do(func() {
					lastHL = highest()
					v = lastHL
				})
				if slowHL > 0 {
					time.Sleep(slowHL)
				}
				return v
			},
		})
		proc.Start()

		observe := func(when string) {
			if rec.failed() {
				return
			}
			got := sem.Processing()
			ml.mu.Lock()
			defer ml.mu.Unlock()
			if !stopping && (got.Num > capacity.Num || got.Size > capacity.Size) {
				rec.violation("proc-semaphore", "proc-semaphore/capacity", "%s t=%v: semaphore holds %v, capacity %v", when, now(), got, capacity)
			}
			if warned > 0 {
				rec.violation("proc-semaphore", "proc-semaphore/over-release", "%s t=%v: the semaphore reported an over-release", when, now())
			}
			want := dag.Metric{Num: acquired.Num - releasedM.Num, Size: acquired.Size - releasedM.Size}
			if got != want && inflight == 0 && !stopping {
				rec.violation("proc-semaphore", "proc-semaphore/balance", "%s t=%v: semaphore holds %v, acquired minus released is %v", when, now(), got, want)
			}
		}

		// stimuli: batches at their instants, Stop at its instant
		var plan []stim
		for _, b := range batches {
			if burst && b.id == 0 {
				continue
			}
			plan = append(plan, stim{at: b.at, op: sim.Op{K: "enqueue", A: []int64{int64(b.id)}}})
		}
		if stopMode == 1 {
			plan = append(plan, stim{at: stopAt + 7*time.Nanosecond*100, op: sim.Op{K: "stop"}})
		}
		doStop := func() {
			ml.do(func() {
				stopping = true
				for _, b := range batches {
					if b.doneAt < 0 && (b.returned && b.enqErr == nil || !b.returned) {
						probes.inc("stop_with_batches_in_flight")
						break
					}
				}
			})
			proc.Stop()
			ml.do(func() { stopped = true })
		}
		fire := func(s stim, t time.Duration) {
			if rec.failed() {
				return
			}
			switch s.op.K {
			case "stop":
				was := false
				ml.do(func() { was = stopped })
				if !was {
					doStop()
				}
			case "enqueue":
				b := batches[int(s.op.A[0])]
				var list dag.Events
				skip := false
				ml.do(func() {
					if stopped {
						b.returned, b.enqErr = true, errors.New("not attempted: the processor was stopped before")
						skip = true
						return
					}
					for j, e := range b.events {
						pc := &pcopy{Event: evs[e].base, ev: e, batch: b.id, pos: j}
						b.copies = append(b.copies, pc)
						list = append(list, pc)
					}
					inflight++
				})
				if skip {
					return
				}
				run := func() {
					t0 := now()
					err := proc.Enqueue(b.peer, list, b.ordered, nil, func() {
						ml.do(func() {
							if !stopping { // done also fires when the task is aborted by Stop: that is not "finished handling"
								b.doneAt = now()
							}
						})
					})
					ml.mu.Lock()
					defer ml.mu.Unlock()
					inflight--
					b.enqErr, b.returned = err, true
					if err == nil {
						m := list.Metric()
						acquired.Num += m.Num
						acquired.Size += m.Size
					}
					if now()-t0 > 0 {
						probes.inc("enqueue_blocked_on_semaphore")
					}
					if err == dagprocessor.ErrBusy {
						probes.inc("enqueue_err_busy")
						if took := now() - t0; !stopping && took < semTimeout && !(list.Metric().Num > capacity.Num || list.Metric().Size > capacity.Size) {
							rec.violation("proc-semaphore", "proc-semaphore/busy-early", "Enqueue of batch %d returned ErrBusy after %v, the semaphore timeout is %v", b.id, took, semTimeout)
						}
					}
				}
				if len(s.op.S) > 0 && s.op.S[0] == "inline" {
					run() // on the caller's goroutine, nothing else runs in between
				} else {
					go run()
				}
			}
		}
		if burst {
			// Start, Enqueue and Stop in one go on one goroutine: the processor's own goroutines have not run yet
			probes.inc("stop_right_after_start_and_enqueue")
			fire(stim{op: sim.Op{K: "enqueue", A: []int64{0}, S: []string{"inline"}}}, 0)
			doStop()
		}
		drive(plan, fire, func(time.Duration) { observe("after stimulus") })
		// let everything drain: checker delays, semaphore timeouts
		settle(12 * time.Second)
		observe("after draining")
		allDone := true
		wasStopped := false
		ml.do(func() {
			for _, b := range batches {
				if !b.returned {
					rec.violation("proc-hang", "proc-hang/enqueue", "Enqueue of batch %d has not returned %v after the last stimulus", b.id, 12*time.Second)
				}
				if b.enqErr == nil && b.doneAt < 0 {
					allDone = false
				}
			}
			wasStopped = stopped
		})
		if !wasStopped {
			doStop()
		}
		settle(time.Second)
		simEnd = now()
		semLeft := sem.Processing()
		ml.mu.Lock()
		defer ml.mu.Unlock()
		// ---- release accounting ----
		for _, b := range batches {
			for j := range b.events {
				if b.enqErr != nil {
					if b.released[j] != 0 {
						rec.violation("proc-release", "proc-release/refused-batch", "batch %d was refused (%v) but its event at position %d was released", b.id, b.enqErr, j)
					}
					continue
				}
				if b.touch[j] >= 0 && len(occ[b.events[j]]) == 1 && b.released[j] != 1 {
					// the event went through the processor (it reached the ordering buffer or was released before it)
					rec.violation("proc-release", "proc-release/handled-but-not-released", "event e%d of batch %d (position %d) was handled by the processor (it reached the ordering buffer) but was released %d times by the time Stop had returned and all workers had finished", b.events[j], b.id, j, b.released[j])
				}
				if b.doneAt >= 0 && b.released[j] != 1 {
					rec.violation("proc-release", "proc-release/missing", "batch %d finished handling (done fired at %v) but its event e%d (position %d) was released %d times by the time Stop returned", b.id, b.doneAt, b.events[j], j, b.released[j])
				}
			}
			// ordered batches reach the buffer in batch order (first touch per position is increasing)
			if b.ordered && b.enqErr == nil {
				last := -1
				reordered := false
				for j := range b.events {
					if j > 0 && b.delays[j] < b.delays[j-1] {
						reordered = true
					}
					if b.touch[j] < 0 {
						continue
					}
					if b.touch[j] < last {
						rec.violation("proc-ordered", "proc-ordered", "ordered batch %d: event at position %d reached the ordering buffer before an earlier position (checker delays %v)", b.id, j, b.delays)
					}
					last = b.touch[j]
				}
				if reordered {
					probes.inc("ordered_batch_with_reordering_checker")
				}
			}
		}
		if allDone && stopMode == 0 {
			if got := semLeft; got.Num != 0 || got.Size != 0 {
				rec.violation("proc-semaphore", "proc-semaphore/not-zero", "every batch was handled and every event released, but the semaphore still holds %v", got)
			}
			probes.inc("all_batches_done_and_balanced")
		}
		_ = procOrder
	})
	for k, v := range probes.snapshot() {
		for i := 0; i < v; i++ {
			c.Probe(k)
		}
	}
	c.Count("batches", int64(nb))
	c.SimTime(int64(simEnd / time.Millisecond))
	finish(c, rec, trouble, "proc-hang", "proc-hang/deadlock")
	if nb >= 2 {
		c.MarkNontrivial()
	}
	c.State(sim.Mix(uint64(nb), uint64(n), uint64(bufNum), uint64(semNum)))
}
