//go:build go1.25

package tasksim

import (
	"fmt"
	"time"

	"github.com/Fantom-foundation/lachesis-base/inter/dag"
	"github.com/Fantom-foundation/lachesis-base/inter/idx"
	"github.com/Fantom-foundation/lachesis-base/utils/datasemaphore"

	"verif/sim"
)

// ---- C30: events semaphore bounds, waits and times out correctly --------------------------------

type semCall struct {
	id      int
	w       dag.Metric
	timeout time.Duration
	start   time.Duration
	end     time.Duration
	done    bool
	ok      bool
	cnt     bool
}

const semSlack = 50 * time.Millisecond // "returning shortly after the timeout"

func RunSemaphore(c *sim.Ctx) {
	capNum := int(c.Knob("cap_num", func() int64 { return int64(c.Int("cap_num", 1, 8)) }))
	capSize := int(c.Knob("cap_size", func() int64 { return int64(c.Int("cap_size", 1, 8)) })) * 10
	nOps := int(c.Knob("ops", func() int64 { return int64(c.Int("ops", 1, 24)) }))
	c.ProbeDecl("acquire_blocked_then_granted", "acquire_timed_out", "acquire_over_capacity_refused", "waiter_without_any_release", "over_release", "terminate_with_blocked_callers", "grant_after_release")
	// ---- plan (drawn completely before the bubble is entered) ----
	var plan []stim
	at := time.Duration(0)
	gen := func() (sim.Op, bool) {
		if len(c.Trace.Ops) >= nOps {
			return sim.Op{}, false
		}
		gap := time.Duration(c.Int("gap_ms", 0, 3000)) * time.Millisecond
		at = uniqueAt(at, gap, len(c.Trace.Ops))
		k := []string{"acquire", "try", "release", "terminate"}[c.PickW("op", []int{10, 3, 8, 1})]
		num, size := c.Int("num", 0, capNum+2), c.Int("size", 0, capSize/10+2)*10
		timeout := []int{0, 1, 100, 1000, 3000, 10000}[c.Pick("timeout", 6)] // 0: "do not wait" (the deadline is the current fake instant)
		return sim.Op{K: k, A: []int64{int64(at), int64(num), int64(size), int64(timeout)}}, true
	}
	for {
		op, ok := c.Next(gen)
		if !ok {
			break
		}
		if len(op.A) < 4 {
			continue
		}
		plan = append(plan, stim{at: time.Duration(op.A[0]), op: op})
	}

	rec := &recorder{}
	var fired, probes []string
	var simEnd time.Duration
	trouble := runBubble(c.T, func() {
		capacity := dag.Metric{Num: idx.Event(capNum), Size: uint64(capSize)}
		warnings := 0
		var ml modelLock
		sem := datasemaphore.New(capacity, func(received, processing, releasing dag.Metric) { ml.do(func() { warnings++ }) })
		var calls []*semCall
		var held dag.Metric // model: granted minus released
		terminated := false
		expectWarnings := 0
		anyReleaseSince := map[int]bool{}

		observe := func(now time.Duration) {
			if rec.failed() {
				return
			}
			got := sem.Processing()
			ml.mu.Lock()
			defer ml.mu.Unlock()
			// grants that completed since the last observation enter the model here
			for _, cl := range calls {
				if cl.done && cl.ok && cl.end >= 0 && !cl.counted() {
					held.Num += cl.w.Num
					held.Size += cl.w.Size
					cl.markCounted()
				}
			}
			if got.Num > capacity.Num || got.Size > capacity.Size {
				rec.violation("sem-capacity", "sem-capacity", "t=%v: held amount %v exceeds the capacity %v", now, got, capacity)
				return
			}
			if got != held {
				rec.violation("sem-conservation", "sem-conservation", "t=%v: Processing() = %v but granted minus released is %v", now, got, held)
				return
			}
			if warnings != expectWarnings {
				rec.violation("sem-warning", "sem-warning", "t=%v: warning callback ran %d times, expected %d (over-releases)", now, warnings, expectWarnings)
				return
			}
			for _, cl := range calls {
				if cl.done {
					continue
				}
				// a blocked caller whose request fits the free capacity must have been granted
				if !terminated && held.Num+cl.w.Num <= capacity.Num && held.Size+cl.w.Size <= capacity.Size {
					rec.violation("sem-grant", "sem-grant/fitting-request-blocked", "t=%v: acquire #%d of %v is still blocked although only %v of %v is held", now, cl.id, cl.w, held, capacity)
					return
				}
				if terminated && (cl.w.Num != 0 || cl.w.Size != 0) { // the property speaks about non-empty requests
					rec.violation("sem-terminate", "sem-terminate/blocked-after-terminate", "t=%v: acquire #%d of %v is still blocked after Terminate", now, cl.id, cl.w)
					return
				}
				if now > cl.start+cl.timeout+semSlack {
					rec.violation("sem-timeout", "sem-timeout/never-returned", "t=%v: acquire #%d of %v with timeout %v started at %v has not returned (no release happened since: %v)", now, cl.id, cl.w, cl.timeout, cl.start, !anyReleaseSince[cl.id])
					return
				}
			}
		}

		fire := func(s stim, now time.Duration) {
			if rec.failed() {
				return
			}
			w := dag.Metric{Num: idx.Event(s.op.A[1]), Size: uint64(s.op.A[2])}
			switch s.op.K {
			case "acquire":
				cl := &semCall{id: len(calls), w: w, timeout: time.Duration(s.op.A[3]) * time.Millisecond, start: now, end: -1}
				wasTerminated := false
				ml.do(func() {
					calls = append(calls, cl)
					wasTerminated = terminated
					fired = append(fired, "acquire")
				})
				t0 := time.Now()
				go func() {
					ok := sem.Acquire(w, cl.timeout)
					ml.mu.Lock()
					defer ml.mu.Unlock()
					cl.ok, cl.end, cl.done = ok, now+time.Since(t0), true
					// ---- per-call oracle, evaluated at return ----
					over := w.Num > capacity.Num || w.Size > capacity.Size
					took := cl.end - cl.start
					switch {
					case ok && over:
						rec.violation("sem-grant", "sem-grant/over-capacity-granted", "acquire #%d of %v was granted although the capacity is %v", cl.id, w, capacity)
					case ok && wasTerminated && (w.Num != 0 || w.Size != 0):
						rec.violation("sem-terminate", "sem-terminate/granted-after-terminate", "acquire #%d of %v was granted after Terminate", cl.id, w)
					case !ok && over && took != 0:
						rec.violation("sem-timeout", "sem-timeout/over-capacity-not-immediate", "acquire #%d of %v exceeds the capacity %v but returned only after %v", cl.id, w, capacity, took)
					case !ok && !over && !terminated && !wasTerminated && took < cl.timeout:
						rec.violation("sem-timeout", "sem-timeout/refused-early", "acquire #%d of %v (timeout %v) was refused after only %v without Terminate", cl.id, w, cl.timeout, took)
					case !ok && !over && took > cl.timeout+semSlack && !terminated:
						rec.violation("sem-timeout", "sem-timeout/late", "acquire #%d of %v (timeout %v) returned false only after %v", cl.id, w, cl.timeout, took)
					}
					if ok && took > 0 {
						probes = append(probes, "acquire_blocked_then_granted")
					}
					if !ok && !over && took >= cl.timeout && !terminated {
						probes = append(probes, "acquire_timed_out")
						if !anyReleaseSince[cl.id] {
							probes = append(probes, "waiter_without_any_release")
						}
					}
					if !ok && over {
						probes = append(probes, "acquire_over_capacity_refused")
					}
				}()
			case "try":
				ok := sem.TryAcquire(w)
				ml.mu.Lock()
				defer ml.mu.Unlock()
				fits := held.Num+w.Num <= capacity.Num && held.Size+w.Size <= capacity.Size
				if terminated {
					fits = fits && w.Num == 0 && w.Size == 0 && false
				}
				// pending grants of the same instant are already in `held` (quiescence before fire)
				if ok != fits && !terminated {
					rec.violation("sem-grant", "sem-grant/try", "t=%v: TryAcquire(%v) = %v with %v of %v held", now, w, ok, held, capacity)
				}
				if ok && terminated && (w.Num != 0 || w.Size != 0) {
					rec.violation("sem-terminate", "sem-terminate/granted-after-terminate", "TryAcquire(%v) succeeded after Terminate", w)
				}
				if ok {
					held.Num += w.Num
					held.Size += w.Size
				}
				fired = append(fired, "try")
			case "release":
				ml.mu.Lock()
				if held.Num < w.Num || held.Size < w.Size {
					held = dag.Metric{}
					expectWarnings++
					probes = append(probes, "over_release")
				} else {
					held.Num -= w.Num
					held.Size -= w.Size
				}
				for _, cl := range calls {
					if !cl.done {
						anyReleaseSince[cl.id] = true
						probes = append(probes, "grant_after_release")
					}
				}
				fired = append(fired, "release")
				ml.mu.Unlock()
				sem.Release(w)
			case "terminate":
				ml.do(func() {
					for _, cl := range calls {
						if !cl.done {
							probes = append(probes, "terminate_with_blocked_callers")
						}
					}
					terminated = true
					fired = append(fired, "terminate")
				})
				sem.Terminate()
			}
		}
		drive(plan, fire, observe)
		// after the last stimulus: let every timeout expire, then everybody must have returned
		settle(11 * time.Second)
		observe(plan[len(plan)-1].at + 11*time.Second)
		simEnd = plan[len(plan)-1].at + 11*time.Second
		// clean-up so that no goroutine is left blocked (a hang was already reported above)
		sem.Terminate()
		for i := 0; i < 4; i++ {
			sem.Release(dag.Metric{})
			settle(time.Millisecond)
		}
	})
	for _, f := range fired {
		c.Count(f, 1)
	}
	for _, p := range probes {
		c.Probe(p)
	}
	c.SimTime(int64(simEnd / time.Millisecond))
	finish(c, rec, trouble, "sem-hang", "sem-hang")
	if len(plan) >= 4 {
		c.MarkNontrivial()
	}
	c.State(sim.Mix(uint64(len(plan)), uint64(capNum), uint64(capSize)))
	_ = fmt.Sprint
}

func (c *semCall) counted() bool { return c.cnt }
func (c *semCall) markCounted()  { c.cnt = true }
