//go:build go1.25

package tasksim

import (
	"fmt"
	"runtime"
	"sort"
	"sync"
	"time"

	"github.com/Fantom-foundation/lachesis-base/gossip/basestream/basestreamleecher"
	"github.com/Fantom-foundation/lachesis-base/gossip/basestream/basestreamleecher/basepeerleecher"

	"verif/sim"
)

// ---- C18: leechers respect flow control and peer removal ---------------------------------------------

func RunLeechers(c *sim.Ctx) {
	knob := func(name string, lo, hi int) int {
		return int(c.Knob(name, func() int64 { return int64(c.Int(name, lo, hi)) }))
	}
	which := knob("component", 0, 1) // 0 peer leecher, 1 base leecher
	recheck := time.Duration([]int{10, 100, 1000}[knob("recheck_interval", 0, 2)]) * time.Millisecond
	parallel := knob("parallel_chunks", 1, 5)
	nPeers := knob("peers", 1, 4)
	rememberPeer := knob("ongoing_peer_remembered_after_session", 0, 1) == 1 // application variant: OngoingSessionPeer keeps naming the last session's peer
	yieldInCallbacks := knob("callbacks_yield_the_processor", 0, 1) == 1     // application callbacks call runtime.Gosched(): other goroutines run while the leecher is inside its critical section
	nOps := knob("ops", 1, 24)
	c.ProbeDecl("request_chunks_called", "window_full", "tick_while_suspended", "done_reported", "chunk_dropped_window_overflow", "chunk_processed_out_of_order",
		"session_started", "unregister_of_session_peer", "terminate_with_session", "session_terminated_by_flag", "unregister_concurrent_with_tick", "terminate_concurrent_with_tick")

	var plan []stim
	at := time.Duration(0)
	gen := func() (sim.Op, bool) {
		if len(c.Trace.Ops) >= nOps {
			return sim.Op{}, false
		}
		at = uniqueAt(at, time.Duration(c.Int("gap_ms", 0, int(3*recheck/time.Millisecond)))*time.Millisecond, len(c.Trace.Ops))
		if which == 0 {
			k := []string{"arrive", "process", "suspend", "resume", "done", "process_newest"}[c.PickW("op", []int{10, 8, 2, 3, 1, 3})]
			return sim.Op{K: k, A: []int64{int64(at), int64(c.Pick("n", 3) + 1)}}, true
		}
		k := []string{"register", "unregister", "terminate", "flag_terminate_session", "clear_flag", "unregister_at_next_tick", "terminate_at_next_tick"}[c.PickW("op", []int{8, 6, 1, 2, 2, 3, 1})]
		return sim.Op{K: k, A: []int64{int64(at), int64(c.Pick("peer", nPeers))}}, true
	}
	for {
		op, ok := c.Next(gen)
		if !ok {
			break
		}
		if len(op.A) < 2 {
			continue
		}
		plan = append(plan, stim{at: time.Duration(op.A[0]), op: op})
	}
	if len(plan) == 0 {
		return
	}
	rec := &recorder{}
	probes := newProbes()
	var simEnd time.Duration
	var trouble string
	if which == 0 {
		trouble = runBubble(c.T, func() {
			start := time.Now()
			now := func() time.Duration { return time.Since(start) }
			var wg sync.WaitGroup
			var ml modelLock
			suspended, done := false, false
			doneSince := time.Duration(-1)      // instant the application's download became done
			suspendedSince := time.Duration(-1) // instant the current suspension began (-1: not suspended)
			lastSuspendAnswer := false
			doneAnswered := false
			arrived := 0                   // chunk ids 0..arrived-1 were handed to the leecher
			processedSet := map[int]bool{} // arrived chunk ids the application has processed (any order)
			nProcessed := 0
			requested := 0
			l := basepeerleecher.New(&wg, basepeerleecher.EpochDownloaderConfig{RecheckInterval: recheck, DefaultChunkItemsNum: 10, DefaultChunkItemsSize: 1000, ParallelChunksDownload: parallel},
				basepeerleecher.EpochDownloaderCallbacks{
					IsProcessed: func(id interface{}) (r bool) {
						ml.do(func() { r = processedSet[id.(int)] })
						return r
					},
					RequestChunks: func(maxNum uint32, maxSize uint64, maxChunks uint32) error {
						ml.mu.Lock()
						defer ml.mu.Unlock()
						probes.inc("request_chunks_called")
						requested += int(maxChunks)
						if lastSuspendAnswer {
							rec.violation("leecher-suspend", "leecher-suspend", "t=%v: RequestChunks(%d) although Suspend() just answered true", now(), maxChunks)
						}
						if doneAnswered {
							rec.violation("leecher-done", "leecher-done", "t=%v: RequestChunks(%d) after Done() returned true", now(), maxChunks)
						}
						if suspended && suspendedSince >= 0 && now() > suspendedSince {
							// "issues no request while suspended": the suspension began at an earlier instant, whatever made the
							// leecher act now came after that
							rec.violation("leecher-suspend", "leecher-suspend/request-while-suspended", "t=%v: RequestChunks(%d) although the application has been suspended (Suspend() answers true) since %v", now(), maxChunks, suspendedSince)
						}
						if doneSince >= 0 && now() > doneSince {
							// the download has been done since an earlier instant: whatever made the leecher act now (a tick, a
							// chunk) came after that, and acting on it includes asking whether the download is done
							rec.violation("leecher-done", "leecher-done/request-while-done", "t=%v: RequestChunks(%d) although the download has been done (Done() answers true) since %v", now(), maxChunks, doneSince)
						}
						arrivedAndProcessed := nProcessed
						if requested-arrivedAndProcessed > parallel {
							rec.violation("leecher-window", "leecher-window", "t=%v: %d chunks requested in total, %d arrived and processed: %d outstanding, the parallelism limit is %d", now(), requested, arrivedAndProcessed, requested-arrivedAndProcessed, parallel)
						}
						if requested-arrivedAndProcessed == parallel {
							probes.inc("window_full")
						}
						return nil
					},
					Suspend: func() bool {
						ml.mu.Lock()
						defer ml.mu.Unlock()
						lastSuspendAnswer = suspended
						if suspended {
							probes.inc("tick_while_suspended")
						}
						return suspended
					},
					Done: func() bool {
						ml.mu.Lock()
						defer ml.mu.Unlock()
						if done {
							doneAnswered = true
							probes.inc("done_reported")
						}
						return done
					},
				})
			l.Start()
			fire := func(s stim, t time.Duration) {
				if rec.failed() {
					return
				}
				n := int(s.op.A[1])
				switch s.op.K {
				case "arrive":
					for i := 0; i < n; i++ {
						if l.Stopped() {
							break
						}
						id := 0
						ml.do(func() {
							if arrived-nProcessed >= 2*parallel {
								probes.inc("chunk_dropped_window_overflow")
							}
							// counted before the hand-over: the leecher may act on the chunk while the call is still in progress
							id = arrived
							arrived++
						})
						_ = l.NotifyChunkReceived(id)
					}
				case "process":
					ml.do(func() {
						// the oldest n unprocessed chunks, in arrival order
						for id := 0; id < arrived && n > 0; id++ {
							if !processedSet[id] {
								processedSet[id] = true
								nProcessed++
								n--
							}
						}
					})
				case "process_newest":
					ml.do(func() {
						// out of order: the n-th newest unprocessed chunk is finished before older ones
						for id := arrived - 1; id >= 0; id-- {
							if !processedSet[id] {
								if n--; n == 0 {
									processedSet[id] = true
									nProcessed++
									probes.inc("chunk_processed_out_of_order")
									break
								}
							}
						}
					})
				case "suspend":
					ml.do(func() {
						if !suspended {
							suspended, suspendedSince = true, t
						}
					})
				case "resume":
					ml.do(func() { suspended, suspendedSince = false, -1 })
				case "done":
					ml.do(func() {
						if !done {
							done, doneSince = true, t
						}
					})
				}
			}
			drive(plan, fire, nil)
			settle(3 * recheck)
			isDone := false
			ml.do(func() { isDone = done })
			if isDone && !rec.failed() && !l.Stopped() {
				rec.violation("leecher-done", "leecher-done/not-stopped", "the download was reported done %v ago but the peer leecher has not stopped", 3*recheck)
			}
			simEnd = now()
			l.Stop()
		})
	} else {
		trouble = runBubble(c.T, func() {
			start := time.Now()
			now := func() time.Duration { return time.Since(start) }
			var ml modelLock
			var async sync.WaitGroup
			ongoing := ""
			lastPeer := ""
			flag := false
			terminated := false
			terminating := false              // a Terminate call on another goroutine is in progress
			registered := map[string]bool{}   // as the application sees it: RegisterPeer returned / UnregisterPeer returned
			unregistering := map[string]int{} // UnregisterPeer calls in progress on another goroutine
			// calls armed by a stimulus are started, each on its own goroutine, by the next callback the leecher makes
			// (mostly from its ticker goroutine, inside the critical section); the callback then yields the processor
			// once so that they run up to the leecher's lock.  No two timers share an instant this way.
			var armed []func()
			arm := func(f func()) {
				async.Add(1)
				ml.do(func() { armed = append(armed, f) })
			}
			launchArmed := func() {
				var fs []func()
				ml.do(func() { fs, armed = armed, nil })
				for _, f := range fs {
					go f()
				}
				if len(fs) > 0 || yieldInCallbacks {
					runtime.Gosched()
				}
			}
			var l *basestreamleecher.BaseLeecher
			l = basestreamleecher.New(recheck, basestreamleecher.Callbacks{
				SelectSessionPeerCandidates: func() []string {
					launchArmed()
					var r []string
					for p := range l.Peers {
						r = append(r, p)
					}
					sort.Strings(r)
					return r
				},
				ShouldTerminateSession: func() (r bool) {
					launchArmed()
					ml.do(func() { r = flag })
					return r
				},
				StartSession: func(cands []string) {
					ml.mu.Lock()
					defer ml.mu.Unlock()
					probes.inc("session_started")
					if ongoing != "" {
						rec.violation("leecher-session", "leecher-session/second-session", "t=%v: StartSession while a session with %s is ongoing", now(), ongoing)
					}
					if terminated {
						rec.violation("leecher-session", "leecher-session/after-terminate", "t=%v: StartSession after Terminate", now())
					}
					for _, p := range cands {
						if !registered[p] && unregistering[p] == 0 {
							rec.violation("leecher-peer", "leecher-peer/unregistered-candidate", "t=%v: StartSession received candidate %s, which is not registered (unregistered or never registered)", now(), p)
						}
					}
					if len(cands) == 0 {
						rec.violation("leecher-session", "leecher-session/no-candidates", "StartSession without candidates")
						return
					}
					ongoing = cands[int(sim.Mix(uint64(now()), uint64(len(cands)))%uint64(len(cands)))]
					lastPeer = ongoing
				},
				TerminateSession: func() {
					if yieldInCallbacks {
						runtime.Gosched() // winding a session down takes a moment: other goroutines run meanwhile
					}
					ml.do(func() {
						if ongoing != "" && flag {
							probes.inc("session_terminated_by_flag")
						}
						ongoing = ""
					})
				},
				OngoingSession: func() (r bool) {
					launchArmed()
					ml.do(func() { r = ongoing != "" })
					return r
				},
				OngoingSessionPeer: func() (r string) {
					ml.do(func() {
						r = ongoing
						if rememberPeer {
							r = lastPeer
						}
					})
					return r
				},
			})
			l.Start()
			fire := func(s stim, t time.Duration) {
				if rec.failed() {
					return
				}
				p := fmt.Sprintf("p%d", s.op.A[1])
				switch s.op.K {
				case "register":
					ml.do(func() {
						if !terminated {
							registered[p] = true // from the moment the call is made the peer may be chosen
						}
					})
					_ = l.RegisterPeer(p)
				case "unregister":
					ml.do(func() {
						if ongoing == p {
							probes.inc("unregister_of_session_peer")
						}
						// a session started inside UnregisterPeer must already exclude the peer
						registered[p] = false
					})
					_ = l.UnregisterPeer(p)
					ml.do(func() {
						if ongoing == p {
							rec.violation("leecher-peer", "leecher-peer/session-with-unregistered-peer", "t=%v: UnregisterPeer(%s) returned but a session with that peer is running", now(), p)
						}
					})
				case "unregister_at_next_tick":
					// another goroutine of the application unregisters the peer while the leecher is inside its next
					// routine: the call is started from the routine's first callback (see launchArmed)
					arm(func() {
						defer async.Done()
						// the call takes effect somewhere between now and its return: until then the peer may still be chosen
						ml.do(func() {
							probes.inc("unregister_concurrent_with_tick")
							unregistering[p]++
						})
						_ = l.UnregisterPeer(p)
						ml.do(func() {
							unregistering[p]--
							registered[p] = false
							if ongoing == p {
								rec.violation("leecher-peer", "leecher-peer/session-with-unregistered-peer", "t=%v: UnregisterPeer(%s), called concurrently with a tick, returned but a session with that peer is running", now(), p)
							}
						})
					})
				case "terminate_at_next_tick":
					// Terminate from a second goroutine while the leecher is inside its next routine
					arm(func() {
						defer async.Done()
						first := false
						ml.do(func() {
							if !terminated && !terminating {
								first = true
								terminating = true
								probes.inc("terminate_concurrent_with_tick")
							}
						})
						if !first {
							return
						}
						l.Terminate()
						ml.do(func() {
							terminated = true
							if ongoing != "" {
								rec.violation("leecher-session", "leecher-session/alive-after-terminate", "t=%v: Terminate, called concurrently with a tick, returned but a session with %s is running", now(), ongoing)
							}
						})
					})
				case "terminate":
					first := false
					ml.do(func() {
						if !terminated && !terminating {
							first = true
							if ongoing != "" {
								probes.inc("terminate_with_session")
							}
							terminated = true
						}
					})
					if first {
						l.Terminate()
						ml.do(func() {
							if ongoing != "" {
								rec.violation("leecher-session", "leecher-session/alive-after-terminate", "Terminate returned but a session with %s is running", ongoing)
							}
						})
					}
				case "flag_terminate_session":
					ml.do(func() { flag = true })
				case "clear_flag":
					ml.do(func() { flag = false })
				}
			}
			drive(plan, fire, func(time.Duration) {
				ml.do(func() {
					if ongoing != "" && !registered[ongoing] && unregistering[ongoing] == 0 && !rec.failed() {
						rec.violation("leecher-peer", "leecher-peer/session-with-unregistered-peer", "t=%v: a session with unregistered peer %s is running", now(), ongoing)
					}
				})
			})
			settle(3 * recheck)
			// calls that no callback picked up any more (the leecher stopped ticking): made now, one after the other
			var left []func()
			ml.do(func() { left, armed = armed, nil })
			for _, f := range left {
				f()
			}
			async.Wait()
			simEnd = now()
			wasTerminated := false
			ml.do(func() { wasTerminated = terminated })
			if !wasTerminated {
				l.Stop()
			} else {
				l.Wg.Wait()
			}
		})
	}
	for k, v := range probes.snapshot() {
		for i := 0; i < v; i++ {
			c.Probe(k)
		}
	}
	c.SimTime(int64(simEnd / time.Millisecond))
	finish(c, rec, trouble, "leecher-hang", "leecher-hang")
	if len(plan) >= 4 {
		c.MarkNontrivial()
	}
	c.State(sim.Mix(uint64(len(plan)), uint64(which), uint64(parallel)))
}
