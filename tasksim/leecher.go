//go:build go1.25

package tasksim

import (
	"fmt"
	"sort"
	"sync"
	"time"

	"github.com/Fantom-foundation/lachesis-base/gossip/basestream/basestreamleecher"
	"github.com/Fantom-foundation/lachesis-base/gossip/basestream/basestreamleecher/basepeerleecher"

	"verif/sim"
)

// ---- C18: leechers respect flow control and peer removal ---------------------------------------------

func RunLeechers(c *sim.Ctx) {
	knob := func(name string, lo, hi int) int {
		return int(c.Knob(name, func() int64 { return int64(c.Int(name, lo, hi)) }))
	}
	which := knob("component", 0, 1) // 0 peer leecher, 1 base leecher
	recheck := time.Duration([]int{10, 100, 1000}[knob("recheck_interval", 0, 2)]) * time.Millisecond
	parallel := knob("parallel_chunks", 1, 5)
	nPeers := knob("peers", 1, 4)
	rememberPeer := knob("ongoing_peer_remembered_after_session", 0, 1) == 1 // application variant: OngoingSessionPeer keeps naming the last session's peer
	nOps := knob("ops", 1, 24)
	c.ProbeDecl("request_chunks_called", "window_full", "tick_while_suspended", "done_reported", "chunk_dropped_window_overflow",
		"session_started", "unregister_of_session_peer", "terminate_with_session", "session_terminated_by_flag")

	var plan []stim
	at := time.Duration(0)
	gen := func() (sim.Op, bool) {
		if len(c.Trace.Ops) >= nOps {
			return sim.Op{}, false
		}
		at = uniqueAt(at, time.Duration(c.Int("gap_ms", 0, int(3*recheck/time.Millisecond)))*time.Millisecond, len(c.Trace.Ops))
		if which == 0 {
			k := []string{"arrive", "process", "suspend", "resume", "done"}[c.PickW("op", []int{10, 10, 2, 3, 1})]
			return sim.Op{K: k, A: []int64{int64(at), int64(c.Pick("n", 3) + 1)}}, true
		}
		k := []string{"register", "unregister", "terminate", "flag_terminate_session", "clear_flag"}[c.PickW("op", []int{8, 6, 1, 2, 2})]
		return sim.Op{K: k, A: []int64{int64(at), int64(c.Pick("peer", nPeers))}}, true
	}
	for {
		op, ok := c.Next(gen)
		if !ok {
			break
		}
		if len(op.A) < 2 {
			continue
		}
		plan = append(plan, stim{at: time.Duration(op.A[0]), op: op})
	}
	if len(plan) == 0 {
		return
	}
	rec := &recorder{}
	probes := map[string]int{}
	var simEnd time.Duration
	var trouble string
	if which == 0 {
		trouble = runBubble(c.T, func() {
			start := time.Now()
			now := func() time.Duration { return time.Since(start) }
			var wg sync.WaitGroup
			suspended, done := false, false
			lastSuspendAnswer := false
			doneAnswered := false
			arrived := 0   // chunk ids 0..arrived-1 were handed to the leecher
			processed := 0 // chunk ids 0..processed-1 are processed by the application
			requested := 0
			l := basepeerleecher.New(&wg, basepeerleecher.EpochDownloaderConfig{RecheckInterval: recheck, DefaultChunkItemsNum: 10, DefaultChunkItemsSize: 1000, ParallelChunksDownload: parallel},
				basepeerleecher.EpochDownloaderCallbacks{
					IsProcessed: func(id interface{}) bool { return id.(int) < processed },
					RequestChunks: func(maxNum uint32, maxSize uint64, maxChunks uint32) error {
						probes["request_chunks_called"]++
						requested += int(maxChunks)
						if lastSuspendAnswer {
							rec.violation("leecher-suspend", "leecher-suspend", "t=%v: RequestChunks(%d) although Suspend() just answered true", now(), maxChunks)
						}
						if doneAnswered {
							rec.violation("leecher-done", "leecher-done", "t=%v: RequestChunks(%d) after Done() returned true", now(), maxChunks)
						}
						arrivedAndProcessed := processed
						if arrived < arrivedAndProcessed {
							arrivedAndProcessed = arrived
						}
						if requested-arrivedAndProcessed > parallel {
							rec.violation("leecher-window", "leecher-window", "t=%v: %d chunks requested in total, %d arrived and processed: %d outstanding, the parallelism limit is %d", now(), requested, arrivedAndProcessed, requested-arrivedAndProcessed, parallel)
						}
						if requested-arrivedAndProcessed == parallel {
							probes["window_full"]++
						}
						return nil
					},
					Suspend: func() bool {
						lastSuspendAnswer = suspended
						if suspended {
							probes["tick_while_suspended"]++
						}
						return suspended
					},
					Done: func() bool {
						if done {
							doneAnswered = true
							probes["done_reported"]++
						}
						return done
					},
				})
			l.Start()
			fire := func(s stim, t time.Duration) {
				if rec.failed() {
					return
				}
				n := int(s.op.A[1])
				switch s.op.K {
				case "arrive":
					for i := 0; i < n; i++ {
						if arrived-processed >= 2*parallel {
							probes["chunk_dropped_window_overflow"]++
						}
						if l.Stopped() {
							break
						}
						_ = l.NotifyChunkReceived(arrived)
						arrived++
					}
				case "process":
					processed += n
					if processed > arrived {
						processed = arrived
					}
				case "suspend":
					suspended = true
				case "resume":
					suspended = false
				case "done":
					done = true
				}
			}
			drive(plan, fire, nil)
			settle(3 * recheck)
			if done && !rec.failed() && !l.Stopped() {
				rec.violation("leecher-done", "leecher-done/not-stopped", "the download was reported done %v ago but the peer leecher has not stopped", 3*recheck)
			}
			simEnd = now()
			l.Stop()
		})
	} else {
		trouble = runBubble(c.T, func() {
			start := time.Now()
			now := func() time.Duration { return time.Since(start) }
			ongoing := ""
			lastPeer := ""
			flag := false
			terminated := false
			registered := map[string]bool{} // as the application sees it: RegisterPeer returned / UnregisterPeer returned
			var l *basestreamleecher.BaseLeecher
			l = basestreamleecher.New(recheck, basestreamleecher.Callbacks{
				SelectSessionPeerCandidates: func() []string {
					var r []string
					for p := range l.Peers {
						r = append(r, p)
					}
					sort.Strings(r)
					return r
				},
				ShouldTerminateSession: func() bool { return flag },
				StartSession: func(cands []string) {
					probes["session_started"]++
					if ongoing != "" {
						rec.violation("leecher-session", "leecher-session/second-session", "t=%v: StartSession while a session with %s is ongoing", now(), ongoing)
					}
					if terminated {
						rec.violation("leecher-session", "leecher-session/after-terminate", "t=%v: StartSession after Terminate", now())
					}
					for _, p := range cands {
						if !registered[p] {
							rec.violation("leecher-peer", "leecher-peer/unregistered-candidate", "t=%v: StartSession received candidate %s, which is not registered (unregistered or never registered)", now(), p)
						}
					}
					if len(cands) == 0 {
						rec.violation("leecher-session", "leecher-session/no-candidates", "StartSession without candidates")
						return
					}
					ongoing = cands[int(sim.Mix(uint64(now()), uint64(len(cands)))%uint64(len(cands)))]
					lastPeer = ongoing
				},
				TerminateSession: func() {
					if ongoing != "" && flag {
						probes["session_terminated_by_flag"]++
					}
					ongoing = ""
				},
				OngoingSession:     func() bool { return ongoing != "" },
				OngoingSessionPeer: func() string {
					if rememberPeer {
						return lastPeer
					}
					return ongoing
				},
			})
			l.Start()
			fire := func(s stim, t time.Duration) {
				if rec.failed() {
					return
				}
				p := fmt.Sprintf("p%d", s.op.A[1])
				switch s.op.K {
				case "register":
					if !terminated {
						registered[p] = true // from the moment the call is made the peer may be chosen
					}
					_ = l.RegisterPeer(p)
				case "unregister":
					if ongoing == p {
						probes["unregister_of_session_peer"]++
					}
					// a session started inside UnregisterPeer must already exclude the peer
					registered[p] = false
					_ = l.UnregisterPeer(p)
					if ongoing == p {
						rec.violation("leecher-peer", "leecher-peer/session-with-unregistered-peer", "t=%v: UnregisterPeer(%s) returned but a session with that peer is running", now(), p)
					}
				case "terminate":
					if !terminated {
						if ongoing != "" {
							probes["terminate_with_session"]++
						}
						terminated = true
						l.Terminate()
						if ongoing != "" {
							rec.violation("leecher-session", "leecher-session/alive-after-terminate", "Terminate returned but a session with %s is running", ongoing)
						}
					}
				case "flag_terminate_session":
					flag = true
				case "clear_flag":
					flag = false
				}
			}
			drive(plan, fire, func(time.Duration) {
				if ongoing != "" && !registered[ongoing] && !rec.failed() {
					rec.violation("leecher-peer", "leecher-peer/session-with-unregistered-peer", "t=%v: a session with unregistered peer %s is running", now(), ongoing)
				}
			})
			settle(3 * recheck)
			simEnd = now()
			if !terminated {
				l.Stop()
			} else {
				l.Wg.Wait()
			}
		})
	}
	for k, v := range probes {
		for i := 0; i < v; i++ {
			c.Probe(k)
		}
	}
	c.SimTime(int64(simEnd / time.Millisecond))
	finish(c, rec, trouble, "leecher-hang", "leecher-hang")
	if len(plan) >= 4 {
		c.MarkNontrivial()
	}
	c.State(sim.Mix(uint64(len(plan)), uint64(which), uint64(parallel)))
}
