//go:build go1.25

//go:debug randseednop=0

package tasksim

import (
	"testing"

	"verif/sim"
)

func TestC30(t *testing.T) {
	sim.Main(t, sim.Spec{Property: "C30", Engine: "E3-tasks", Run: RunSemaphore})
}

func TestC15(t *testing.T) {
	sim.Main(t, sim.Spec{Property: "C15", Engine: "E3-tasks", Run: RunProcessor})
}

func TestC16(t *testing.T) {
	sim.Main(t, sim.Spec{Property: "C16", Engine: "E3-tasks", Run: RunFetcher})
}

func TestC17(t *testing.T) {
	sim.Main(t, sim.Spec{Property: "C17", Engine: "E3-tasks", Run: RunSeeder})
}

func TestC18(t *testing.T) {
	sim.Main(t, sim.Spec{Property: "C18", Engine: "E3-tasks", Run: RunLeechers})
}
