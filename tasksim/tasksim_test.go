//go:build go1.25

//go:debug randseednop=0

package tasksim

import (
	"os"
	"runtime"
	"runtime/debug"
	"testing"

	"verif/sim"
)

// The garbage collector never runs while a bubble is active: an allocating goroutine that is made to
// assist a running collection parks in the middle of whatever it is doing (even inside a map write), which
// is a scheduling decision the simulator does not own.  Collection is switched off and forced between runs.
func TestMain(m *testing.M) {
	debug.SetGCPercent(-1)
	os.Exit(m.Run())
}

var runsSinceGC int

func gcBetweenRuns(run func(*sim.Ctx)) func(*sim.Ctx) {
	return func(c *sim.Ctx) {
		if runsSinceGC++; runsSinceGC >= 64 {
			runsSinceGC = 0
			runtime.GC()
		}
		run(c)
	}
}

func TestC30(t *testing.T) {
	sim.Main(t, sim.Spec{Property: "C30", Engine: "E3-tasks", Run: gcBetweenRuns(RunSemaphore)})
}

func TestC15(t *testing.T) {
	sim.Main(t, sim.Spec{Property: "C15", Engine: "E3-tasks", Run: gcBetweenRuns(RunProcessor)})
}

func TestC16(t *testing.T) {
	sim.Main(t, sim.Spec{Property: "C16", Engine: "E3-tasks", Run: gcBetweenRuns(RunFetcher)})
}

func TestC17(t *testing.T) {
	sim.Main(t, sim.Spec{Property: "C17", Engine: "E3-tasks", Run: gcBetweenRuns(RunSeeder)})
}

func TestC18(t *testing.T) {
	sim.Main(t, sim.Spec{Property: "C18", Engine: "E3-tasks", Run: gcBetweenRuns(RunLeechers)})
}
