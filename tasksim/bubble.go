//go:build go1.25

// Package tasksim is engine E3: the goroutine/timer components of lachesis-base run unmodified
// inside testing/synctest bubbles (fake clock + quiescence detection, Go >= 1.25).  The simulator
// owns the schedule one level up: a pre-drawn plan of stimuli with unique fake timestamps; the
// driver advances fake time to the next stimulus, fires it and waits for quiescence
// (DESIGN.md §3.3).
package tasksim

import (
	"fmt"
	"sort"
	"sync"
	"testing"
	"testing/synctest"
	"time"

	"verif/sim"
)

// stim is one planned stimulus.
type stim struct {
	at time.Duration
	op sim.Op
}

// recorder collects observations and the first violation from inside the bubble.
type recorder struct {
	mu   sync.Mutex
	viol *pendingViolation
	log  []string
}

type pendingViolation struct {
	class, sig, msg string
}

func (r *recorder) violation(class, sig, f string, a ...interface{}) {
	r.mu.Lock()
	defer r.mu.Unlock()
	if r.viol == nil {
		r.viol = &pendingViolation{class, sig, fmt.Sprintf(f, a...)}
	}
}

func (r *recorder) failed() bool {
	r.mu.Lock()
	defer r.mu.Unlock()
	return r.viol != nil
}

func (r *recorder) logf(f string, a ...interface{}) {
	r.mu.Lock()
	r.log = append(r.log, fmt.Sprintf(f, a...))
	r.mu.Unlock()
}

// probeCounts counts "this condition was reached" hits from any goroutine of a bubble.  (A plain map is
// not enough even with one P: a goroutine can be descheduled inside a map write, in an allocation.)
type probeCounts struct {
	mu sync.Mutex
	m  map[string]int
}

func newProbes() *probeCounts { return &probeCounts{m: map[string]int{}} }

func (p *probeCounts) inc(k string) {
	p.mu.Lock()
	p.m[k]++
	p.mu.Unlock()
}

func (p *probeCounts) snapshot() map[string]int {
	p.mu.Lock()
	defer p.mu.Unlock()
	r := make(map[string]int, len(p.m))
	for k, v := range p.m {
		r[k] = v
	}
	return r
}

// modelLock serialises the harness's own bookkeeping (model state shared between the driver goroutine
// and callbacks running on the library's goroutines).  The Go scheduler may switch goroutines at any
// function call when the machine is overloaded (cooperative preemption requested by sysmon), so the
// bookkeeping must not rely on "only one goroutine runs between two blocking operations".
// Rules: never block, sleep or call into the library while holding it.
type modelLock struct{ mu sync.Mutex }

func (m *modelLock) do(f func()) {
	m.mu.Lock()
	defer m.mu.Unlock()
	f()
}

// runBubble runs body inside a fresh bubble.  It returns a non-empty string when the bubble ended
// in a deadlock (goroutines left blocked for ever) or a panic escaped body.
func runBubble(t *testing.T, body func()) (trouble string) {
	defer func() {
		if r := recover(); r != nil {
			trouble = fmt.Sprint(r)
		}
	}()
	synctest.Test(t, func(*testing.T) {
		defer func() {
			if r := recover(); r != nil {
				trouble = fmt.Sprintf("panic inside bubble: %v", r)
			}
		}()
		body()
	})
	return trouble
}

// drive executes the plan: for each stimulus (ascending fake time) sleep until its instant, fire
// it, wait for quiescence and call observe.
func drive(plan []stim, fire func(s stim, now time.Duration), observe func(now time.Duration)) {
	sort.SliceStable(plan, func(i, j int) bool { return plan[i].at < plan[j].at })
	start := time.Now()
	for _, s := range plan {
		if d := s.at - time.Since(start); d > 0 {
			time.Sleep(d)
		}
		synctest.Wait()
		fire(s, time.Since(start))
		synctest.Wait()
		if observe != nil {
			observe(time.Since(start))
		}
	}
}

// settle sleeps d of fake time and waits for quiescence.
func settle(d time.Duration) {
	time.Sleep(d)
	synctest.Wait()
}

// finish reports the recorded violation (if any) through the context.
func finish(c *sim.Ctx, r *recorder, trouble string, deadlockClass, deadlockSig string) {
	if r.viol != nil {
		c.Violation(r.viol.class, r.viol.sig, "%s", r.viol.msg)
	}
	if trouble != "" {
		c.Violation(deadlockClass, deadlockSig, "the run ended abnormally: %s", trouble)
	}
}

// planTimes turns drawn gaps into strictly increasing unique instants.
func uniqueAt(prev time.Duration, gap time.Duration, n int) time.Duration {
	return prev + gap + time.Duration(n+1)*time.Nanosecond
}
