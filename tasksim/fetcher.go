//go:build go1.25

package tasksim

import (
	"fmt"
	"math/rand"
	"testing/synctest"
	"time"

	"github.com/Fantom-foundation/lachesis-base/gossip/itemsfetcher"

	"verif/sim"
)

// ---- C16: items fetcher asks the right peers and does not forget pending items ---------------------

type fetchReq struct {
	at   time.Duration
	peer int
	item int
}

func RunFetcher(c *sim.Ctx) {
	knob := func(name string, lo, hi int) int {
		return int(c.Knob(name, func() int64 { return int64(c.Int(name, lo, hi)) }))
	}
	nItems := knob("items", 1, 8)
	nPeers := knob("peers", 2, 4)
	arrive := time.Duration([]int{100, 250, 1000, 2000}[knob("arrive_timeout", 0, 3)]) * time.Millisecond
	forget := time.Duration([]int{5, 20, 60}[knob("forget_timeout", 0, 2)]) * time.Second
	maxBatch := knob("max_batch", 1, 8)
	parallel := knob("max_parallel_requests", 2, 4)
	slowPeer := knob("slow_peer", -1, nPeers-1)
	seed := int64(knob("schedule_seed", 1, 1<<30))
	interestIgnoresReceipt := knob("interest_ignores_receipt", 0, 1) == 1 // application variant: OnlyInterested keeps naming received items; the receipt report alone must stop the requests
	trafficBursts := knob("traffic_bursts", 0, 3) == 0                    // some stimuli are long streams of announcements of other items
	nOps := knob("ops", 1, 24)
	c.ProbeDecl("announced_while_suspended", "item_requested", "item_re_requested_after_timeout", "item_received", "interest_lost", "item_forgotten_by_age", "announce_by_second_peer", "interest_regained_without_announcement", "received_while_announced_under_suspension", "traffic_burst")

	var plan []stim
	at := time.Duration(0)
	gen := func() (sim.Op, bool) {
		if len(c.Trace.Ops) >= nOps {
			return sim.Op{}, false
		}
		gap := time.Duration(c.Int("gap_ms", 0, int(3*arrive/time.Millisecond))) * time.Millisecond
		at = uniqueAt(at, gap, len(c.Trace.Ops))
		if trafficBursts && c.Chance("traffic_burst", 120) {
			// a steady stream of announcements of fresh items (peer, how many) with gaps of a tenth of the arrive timeout
			return sim.Op{K: "traffic", A: []int64{int64(at), int64(c.Pick("peer", nPeers)), int64(40 + c.Pick("more", 30))}}, true
		}
		switch c.PickW("op", []int{10, 4, 2, 3, 3, 2}) {
		case 0:
			a := []int64{int64(at), int64(c.Pick("peer", nPeers))}
			for i := 0; i < 1+c.Pick("n_items", 3); i++ {
				a = append(a, int64(c.Pick("item", nItems)))
			}
			return sim.Op{K: "announce", A: a}, true
		case 1:
			return sim.Op{K: "received", A: []int64{int64(at), int64(c.Pick("item", nItems))}}, true
		case 2:
			return sim.Op{K: "uninterested", A: []int64{int64(at), int64(c.Pick("item", nItems))}}, true
		case 3:
			return sim.Op{K: "suspend", A: []int64{int64(at)}}, true
		case 5:
			return sim.Op{K: "interested_again", A: []int64{int64(at), int64(c.Pick("item", nItems))}}, true
		default:
			return sim.Op{K: "resume", A: []int64{int64(at)}}, true
		}
	}
	for {
		op, ok := c.Next(gen)
		if !ok {
			break
		}
		if len(op.A) < 1 {
			continue
		}
		plan = append(plan, stim{at: time.Duration(op.A[0]), op: op})
	}
	if len(plan) == 0 {
		return
	}

	rec := &recorder{}
	probes := newProbes()
	var simEnd time.Duration
	trouble := runBubble(c.T, func() {
		rand.Seed(seed)
		start := time.Now()
		now := func() time.Duration { return time.Since(start) }
		cfg := itemsfetcher.Config{ForgetTimeout: forget, ArriveTimeout: arrive, GatherSlack: arrive / 10, HashLimit: 32 * 4 * (nItems + 100*b2i(trafficBursts)),
			MaxBatch: maxBatch, MaxParallelRequests: parallel, MaxQueuedBatches: 16}
		interested := make([]bool, nItems)
		received := make([]bool, nItems)
		for i := range interested {
			interested[i] = true
		}
		suspended := false
		var ml modelLock
		// oracle state
		reportedInteresting := make([]bool, nItems)          // item appeared in an OnlyInterested answer
		announcedBy := make([]map[int]time.Duration, nItems) // peer -> first announcement instant
		lastAnnounce := make([]time.Duration, nItems)        // latest announcement instant (-1 none)
		firstAnnounce := make([]time.Duration, nItems)       // oldest live announcement instant
		settledAt := make([]time.Duration, nItems)           // instant the item was reported received / lost interest (-1: pending)
		lastResume := time.Duration(0)
		announcedSuspended := make([]bool, nItems)
		var reqs []fetchReq
		trafficFrom := map[int]int{} // traffic item -> announcing peer
		var trafficAnswered []interface{}
		nextTraffic := 1000
		for i := range announcedBy {
			announcedBy[i] = map[int]time.Duration{}
			lastAnnounce[i], settledAt[i], firstAnnounce[i] = -1, -1, -1
		}
		var f *itemsfetcher.Fetcher
		f = itemsfetcher.New(cfg, itemsfetcher.Callback{
			OnlyInterested: func(ids []interface{}) []interface{} {
				ml.mu.Lock()
				defer ml.mu.Unlock()
				var r []interface{}
				for _, id := range ids {
					i := id.(int)
					if i >= 1000 { // traffic items: always wanted, never tracked
						r = append(r, id)
						continue
					}
					if interested[i] && (!received[i] || interestIgnoresReceipt) {
						r = append(r, id)
						reportedInteresting[i] = true
					}
				}
				return r
			},
			Suspend: func() (r bool) {
				ml.do(func() { r = suspended })
				return r
			},
		})
		fetchFn := func(peer int) itemsfetcher.ItemsRequesterFn {
			return func(ids []interface{}) error {
				t := now()
				ml.mu.Lock()
				for _, id := range ids {
					i := id.(int)
					if i >= 1000 {
						if trafficFrom[i] != peer {
							rec.violation("fetch-provenance", "fetch-provenance/peer-did-not-announce", "t=%v: item %d requested from peer p%d, it was announced by p%d only", t, i, peer, trafficFrom[i])
						}
						trafficAnswered = append(trafficAnswered, id) // the peer answers at once: reported received by the driver
						continue
					}
					reqs = append(reqs, fetchReq{t, peer, i})
					probes.inc("item_requested")
					if _, ok := announcedBy[i][peer]; !ok {
						rec.violation("fetch-provenance", "fetch-provenance/peer-did-not-announce", "t=%v: item %d requested from peer p%d, which never announced it (announced by %v)", t, i, peer, announcedBy[i])
					}
					if !reportedInteresting[i] {
						rec.violation("fetch-provenance", "fetch-provenance/not-reported-interesting", "t=%v: item %d requested although it was never reported interesting", t, i)
					}
					if settledAt[i] >= 0 && lastAnnounce[i] < settledAt[i] && t > settledAt[i]+2*arrive {
						why := "received"
						if !received[i] {
							why = "no longer interesting"
						}
						rec.violation("fetch-stop", "fetch-stop", "t=%v: item %d requested from p%d although it was reported %s at %v and not announced since (arrive timeout %v)", t, i, peer, why, settledAt[i], arrive)
					}
				}
				ml.mu.Unlock()
				if peer == slowPeer {
					time.Sleep(arrive / 8)
				}
				return nil
			}
		}
		f.Start()

		requestedSince := func(i int, from time.Duration) bool {
			for _, r := range reqs {
				if r.item == i && r.at >= from {
					return true
				}
			}
			return false
		}
		// liveness: an announced item that stays interesting, unreceived and young must have been
		// requested within 4 arrive timeouts of max(announcement, end of suspension)
		checkLiveness := func(t time.Duration) {
			if rec.failed() {
				return
			}
			ml.mu.Lock()
			defer ml.mu.Unlock()
			for i := 0; i < nItems; i++ {
				if lastAnnounce[i] < 0 || settledAt[i] >= 0 || suspended {
					continue
				}
				from := lastAnnounce[i]
				if lastResume > from {
					from = lastResume
				}
				if t-firstAnnounce[i] > forget-4*arrive { // (about to be) forgotten by age: no claim
					probes.inc("item_forgotten_by_age")
					continue
				}
				if t > from+4*arrive && !requestedSince(i, lastAnnounce[i]) {
					rec.violation("fetch-liveness", "fetch-liveness", "t=%v: item %d was announced at %v (suspension ended at %v), is still interesting and not received, but has not been requested since (arrive timeout %v, forget timeout %v)", t, i, lastAnnounce[i], lastResume, arrive, forget)
				}
			}
		}

		fire := func(s stim, t time.Duration) {
			if rec.failed() {
				return
			}
			switch s.op.K {
			case "announce":
				peer := int(s.op.A[1])
				var ids []interface{}
				ml.mu.Lock()
				for _, x := range s.op.A[2:] {
					i := int(x) % nItems
					ids = append(ids, i)
					if _, ok := announcedBy[i][peer]; !ok {
						if len(announcedBy[i]) > 0 {
							probes.inc("announce_by_second_peer")
						}
						announcedBy[i][peer] = t
					}
					if interested[i] && !received[i] {
						// an announcement of an item that is of no interest is dropped by the fetcher: no claim follows from it
						lastAnnounce[i] = t
						if firstAnnounce[i] < 0 {
							firstAnnounce[i] = t
						}
						settledAt[i] = -1
						if suspended {
							probes.inc("announced_while_suspended")
							announcedSuspended[i] = true
						}
					} else if interested[i] && received[i] && interestIgnoresReceipt {
						// announced anew after the receipt and still named interesting: requests may resume (no claim that they do)
						lastAnnounce[i] = t
					}
				}
				ml.mu.Unlock()
				_ = f.NotifyAnnounces(fmt.Sprintf("p%d", peer), ids, time.Now(), fetchFn(peer))
			case "traffic":
				peer, k := int(s.op.A[1])%nPeers, int(s.op.A[2])
				probes.inc("traffic_burst")
				for j := 0; j < k && !rec.failed(); j++ {
					id := 0
					ml.do(func() {
						id = nextTraffic
						nextTraffic++
						trafficFrom[id] = peer
					})
					_ = f.NotifyAnnounces(fmt.Sprintf("p%d", peer), []interface{}{id}, time.Now(), fetchFn(peer))
					time.Sleep(arrive / 10)
					synctest.Wait()
					var got []interface{}
					ml.do(func() { got, trafficAnswered = trafficAnswered, nil })
					if len(got) > 0 {
						_ = f.NotifyReceived(got)
					}
					checkLiveness(now())
				}
			case "received":
				i := int(s.op.A[1]) % nItems
				ml.do(func() {
					if announcedSuspended[i] && !received[i] && suspended {
						probes.inc("received_while_announced_under_suspension")
					}
					received[i] = true
					settledAt[i] = t
					firstAnnounce[i] = -1
					probes.inc("item_received")
				})
				_ = f.NotifyReceived([]interface{}{i})
			case "uninterested":
				i := int(s.op.A[1]) % nItems
				ml.do(func() {
					if interested[i] {
						interested[i] = false
						if settledAt[i] < 0 {
							settledAt[i] = t
						}
						firstAnnounce[i] = -1
						probes.inc("interest_lost")
					}
				})
			case "interested_again":
				// interest returns long after it was lost (the fetcher had several arrive timeouts to notice the
				// loss); without a new announcement the item must not be requested again
				i := int(s.op.A[1]) % nItems
				ml.do(func() {
					if !interested[i] && !received[i] && settledAt[i] >= 0 && t > settledAt[i]+3*arrive {
						interested[i] = true
						probes.inc("interest_regained_without_announcement")
					}
				})
			case "suspend":
				ml.do(func() { suspended = true })
			case "resume":
				ml.do(func() {
					if suspended {
						suspended = false
						lastResume = t
					}
				})
			}
		}
		drive(plan, fire, checkLiveness)
		last := plan[len(plan)-1].at
		for k := 0; k < 6; k++ {
			settle(arrive)
			checkLiveness(last + time.Duration(k+1)*arrive)
		}
		// re-requests of an item that is still pending happen about once per arrive timeout
		ml.mu.Lock()
		for i := 0; i < nItems; i++ {
			n := 0
			for _, r := range reqs {
				if r.item == i {
					n++
				}
			}
			if n >= 2 {
				probes.inc("item_re_requested_after_timeout")
			}
		}
		ml.mu.Unlock()
		simEnd = now()
		f.Stop()
	})
	for k, v := range probes.snapshot() {
		for i := 0; i < v; i++ {
			c.Probe(k)
		}
	}
	c.SimTime(int64(simEnd / time.Millisecond))
	finish(c, rec, trouble, "fetch-hang", "fetch-hang")
	if len(plan) >= 4 {
		c.MarkNontrivial()
	}
	c.State(sim.Mix(uint64(len(plan)), uint64(nItems), uint64(nPeers)))
}

func b2i(b bool) int {
	if b {
		return 1
	}
	return 0
}
