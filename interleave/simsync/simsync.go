// Package verifsimsync replaces sync.Mutex / sync.RWMutex / sync.Cond and the time functions in a
// scratch copy of the lock-protected packages of lachesis-base (engine E4, DESIGN.md §3.4).
//
// Outside a simulated run the types behave like the originals.  Inside a run (Run) the client
// tasks are real goroutines but exactly one runs at a time; at every synchronisation operation the
// running task asks the scheduler who goes next.  Hand-off is a spin on a plain variable inside
// //go:norace functions (runtime.Gosched between polls), so the race detector sees NO
// happens-before edge made by the simulator, while it still sees every edge made by the program's
// own (real, embedded) mutexes: an access pair that is unordered by the program's own
// synchronisation is reported as a data race although the accesses were executed one at a time.
package verifsimsync

import (
	"runtime"
	"sync"
	"time"
)

const MaxTasks = 32
const maxTimers = 32
const maxRec = 1 << 16

const (
	stFree = iota
	stRunnable
	stBlocked
	stDone
	stIdleRunner
)

const (
	wkNone  = iota
	wkLock  // waiting for an unlock of obj
	wkCond  // waiting for a signal on obj
	wkSleep // waiting for virtual time
)

type taskT struct {
	workSlot  int
	state     int
	kind      int
	obj       uintptr
	signalled bool
	wakeAt    int64
	runner    bool
	work      func()
	prio      int
}

type timerT struct {
	gen   int64
	used  bool
	at    int64
	f     func()
	fired bool
}

var (
	active      bool
	tasks       [MaxTasks]taskT
	nTasks      int
	nNormal     int
	cur         int
	vnow        int64
	Steps       int64
	Wakes       int64 // blocked tasks made runnable again by another task (unlock, signal, broadcast)
	TimersFired int64
	rng         uint64
	switchPm    int
	pct         bool
	pctLeft     [8]int64
	rec         [maxRec]uint8
	recN        int
	replay      []uint8
	replayOK    bool
	rpos        int
	timers      [maxTimers]timerT
	timerHB     [maxTimers]sync.Mutex // real: carries the happens-before edge AfterFunc call -> callback, as the real runtime does
	timerGen    int64
	Deadlock    bool
	DeadInfo    [MaxTasks]int
	base        = time.Unix(1700000000, 0)
	OnDeadlock  func()
)

//go:norace
func rnd() uint64 {
	rng ^= rng << 13
	rng ^= rng >> 7
	rng ^= rng << 17
	return rng
}

//go:norace
func waitTurn(me int) {
	for cur != me {
		runtime.Gosched()
	}
}

// pick chooses the next task among the runnable ones (me included when it is runnable).
//
//go:norace
func pick(me int, mustSwitch bool) int {
	var cand [MaxTasks]int
	n := 0
	for i := 0; i < nTasks; i++ {
		if tasks[i].state == stRunnable {
			cand[n] = i
			n++
		}
	}
	if n == 0 {
		return -1
	}
	next := -1
	if replayOK && rpos < len(replay) {
		want := int(replay[rpos])
		rpos++
		if want < nTasks && tasks[want].state == stRunnable {
			next = want
		}
	}
	if next < 0 {
		if pct {
			// priority schedule: run the runnable task with the highest priority; at the drawn change
			// points the running task's priority drops below everybody else's
			for k := range pctLeft {
				if pctLeft[k] > 0 {
					pctLeft[k]--
					if pctLeft[k] == 0 && me >= 0 {
						tasks[me].prio = -int(Steps)
					}
				}
			}
			best := cand[0]
			for i := 1; i < n; i++ {
				if tasks[cand[i]].prio > tasks[best].prio {
					best = cand[i]
				}
			}
			next = best
		} else {
			stay := me >= 0 && tasks[me].state == stRunnable && !mustSwitch
			if stay && int(rnd()%1000) >= switchPm {
				next = me
			} else {
				next = cand[int(rnd()%uint64(n))]
			}
		}
	}
	if recN < maxRec {
		rec[recN] = uint8(next)
		recN++
	}
	return next
}

//go:norace
func yield() {
	if !active {
		return
	}
	Steps++
	me := cur
	next := pick(me, false)
	if next >= 0 && next != me {
		cur = next
		waitTurn(me)
	}
}

// advanceTime makes the earliest timer / sleeper due.  Returns false when nothing is pending.
//
//go:norace
func advanceTime() bool {
	best := int64(-1)
	for i := range timers {
		if timers[i].used && !timers[i].fired && (best < 0 || timers[i].at < best) {
			best = timers[i].at
		}
	}
	for i := 0; i < nTasks; i++ {
		if tasks[i].state == stBlocked && tasks[i].kind == wkSleep && (best < 0 || tasks[i].wakeAt < best) {
			best = tasks[i].wakeAt
		}
	}
	if best < 0 {
		return false
	}
	if best > vnow {
		vnow = best
	}
	for i := 0; i < nTasks; i++ {
		if tasks[i].state == stBlocked && tasks[i].kind == wkSleep && tasks[i].wakeAt <= vnow {
			tasks[i].state, tasks[i].kind = stRunnable, wkNone
		}
	}
	for i := range timers {
		if timers[i].used && !timers[i].fired && timers[i].at <= vnow {
			timers[i].fired = true
			TimersFired++
			// hand the callback to an idle runner
			for j := 0; j < nTasks; j++ {
				if tasks[j].runner && tasks[j].state == stIdleRunner {
					tasks[j].work = timers[i].f
					tasks[j].workSlot = i
					tasks[j].state = stRunnable
					break
				}
			}
		}
	}
	return true
}

// park blocks the running task until it is made runnable again.
//
//go:norace
func park(me int) {
	for {
		next := pick(me, true)
		if next < 0 {
			if advanceTime() {
				continue
			}
			// nobody can run and no timer is pending: deadlock
			Deadlock = true
			fillDeadInfo()
			if OnDeadlock != nil {
				OnDeadlock()
			}
			for {
				runtime.Gosched() // never returns: OnDeadlock is expected to end the process
			}
		}
		if next == me {
			return
		}
		cur = next
		waitTurn(me)
		if tasks[me].state == stRunnable {
			return
		}
	}
}

//go:norace
func blockOn(kind int, obj uintptr) {
	me := cur
	Steps++
	tasks[me].state, tasks[me].kind, tasks[me].obj = stBlocked, kind, obj
	park(me)
	tasks[me].kind = wkNone
}

//go:norace
func wake(kind int, obj uintptr, all bool) {
	for i := 0; i < nTasks; i++ {
		if tasks[i].state == stBlocked && tasks[i].kind == kind && tasks[i].obj == obj {
			tasks[i].state = stRunnable
			Wakes++
			if !all {
				return
			}
		}
	}
}

// ---- Run ----------------------------------------------------------------------------------------

type Config struct {
	Seed     uint64
	SwitchPm int  // probability (permille) to consider a switch at a yield point (uniform strategy)
	PCT      bool // priority-based schedule with change points
	PCTDepth int
	Replay   []uint8 // recorded schedule (replay mode)
}

// Run executes the task functions under the simulated scheduler and returns the recorded schedule.
func Run(cfg Config, fns []func()) []uint8 {
	n := len(fns)
	if n+n > MaxTasks {
		panic("verifsimsync: too many tasks")
	}
	setup(cfg, n)
	var wg sync.WaitGroup
	for i := 0; i < n; i++ {
		i := i
		wg.Add(1)
		go func() {
			defer wg.Done()
			waitTurn(i)
			func() {
				defer func() {
					if r := recover(); r != nil {
						notePanic(i, r)
					}
				}()
				fns[i]()
			}()
			finishTask(i)
		}()
	}
	// timer runners: one per task is enough (every task has at most one timed wait at a time)
	for j := n; j < n+n; j++ {
		j := j
		wg.Add(1)
		go func() {
			defer wg.Done()
			for {
				waitTurn(j)
				w, slot := takeWork(j)
				if w == nil {
					exitRunner(j)
					return
				}
				timerHB[slot].Lock() // acquire: everything before the AfterFunc call happens before the callback
				timerHB[slot].Unlock()
				w()
				idleRunner(j)
			}
		}()
	}
	start()
	wg.Wait()
	return stop()
}

var Panics []interface{}
var panicMu sync.Mutex

func notePanic(i int, r interface{}) {
	panicMu.Lock()
	Panics = append(Panics, r)
	panicMu.Unlock()
}

//go:norace
func setup(cfg Config, n int) {
	for i := range tasks {
		tasks[i] = taskT{}
	}
	for i := range timers {
		timers[i] = timerT{}
	}
	nTasks, nNormal = n+n, n
	for i := 0; i < n; i++ {
		tasks[i].state = stRunnable
		tasks[i].prio = int(cfg.Seed>>uint(i%48))%1000 + 1000
	}
	for j := n; j < n+n; j++ {
		tasks[j].state, tasks[j].runner = stIdleRunner, true
		tasks[j].prio = 5000
	}
	rng = cfg.Seed | 1
	switchPm = cfg.SwitchPm
	pct = cfg.PCT
	for k := range pctLeft {
		pctLeft[k] = 0
		if cfg.PCT && k < cfg.PCTDepth {
			pctLeft[k] = int64(rnd()%400) + 1
		}
	}
	recN, rpos = 0, 0
	replay, replayOK = cfg.Replay, cfg.Replay != nil
	vnow, Steps = 0, 0
	Wakes, TimersFired = 0, 0
	Deadlock = false
	Panics = nil
	cur = -2
}

//go:norace
func start() {
	active = true
	cur = pick(-1, true)
}

//go:norace
func stop() []uint8 {
	active = false
	out := make([]uint8, recN)
	copy(out, rec[:recN])
	return out
}

//go:norace
func finishTask(i int) {
	tasks[i].state = stDone
	left := 0
	for k := 0; k < nNormal; k++ {
		if tasks[k].state != stDone {
			left++
		}
	}
	if left == 0 {
		// release the runners one after the other, then nobody runs
		for j := nNormal; j < nTasks; j++ {
			if tasks[j].state == stIdleRunner || tasks[j].state == stRunnable {
				tasks[j].work = nil
				tasks[j].state = stRunnable
				cur = j
				return
			}
		}
		cur = -1
		return
	}
	for {
		next := pick(i, true)
		if next >= 0 {
			cur = next
			return
		}
		if !advanceTime() {
			Deadlock = true
			fillDeadInfo()
			if OnDeadlock != nil {
				OnDeadlock()
			}
			for {
				runtime.Gosched()
			}
		}
	}
}

//go:norace
func takeWork(j int) (func(), int) {
	w := tasks[j].work
	tasks[j].work = nil
	return w, tasks[j].workSlot
}

//go:norace
func idleRunner(j int) {
	tasks[j].state = stIdleRunner
	// behaves like a finished task: pass control on
	left := 0
	for k := 0; k < nNormal; k++ {
		if tasks[k].state != stDone {
			left++
		}
	}
	if left == 0 {
		tasks[j].state = stRunnable
		tasks[j].work = nil
		return // loop around: takeWork returns nil and the runner exits
	}
	for {
		next := pick(j, true)
		if next >= 0 {
			cur = next
			return
		}
		if !advanceTime() {
			Deadlock = true
			fillDeadInfo()
			if OnDeadlock != nil {
				OnDeadlock()
			}
			for {
				runtime.Gosched()
			}
		}
	}
}

//go:norace
func exitRunner(j int) {
	tasks[j].state = stDone
	for k := nNormal; k < nTasks; k++ {
		if tasks[k].state != stDone {
			tasks[k].work = nil
			tasks[k].state = stRunnable
			cur = k
			return
		}
	}
	cur = -1
}

// Stamp returns a fresh global sequence number (history stamps of the linearizability check).
//
//go:norace
func Stamp() int64 {
	Steps++
	return Steps
}

// Yield is an explicit scheduling point (operation boundaries of the harness).
func Yield() { yield() }

// ---- Mutex --------------------------------------------------------------------------------------

type Mutex struct{ mu sync.Mutex }

func (m *Mutex) Lock() {
	if !active {
		m.mu.Lock()
		return
	}
	yield()
	for !m.mu.TryLock() {
		blockOn(wkLock, uintptrOf(&m.mu))
	}
}

func (m *Mutex) TryLock() bool { return m.mu.TryLock() }

func (m *Mutex) Unlock() {
	m.mu.Unlock()
	if !active {
		return
	}
	wake(wkLock, uintptrOf(&m.mu), true)
	yield()
}

// ---- RWMutex ------------------------------------------------------------------------------------

type RWMutex struct{ mu sync.RWMutex }

func (m *RWMutex) Lock() {
	if !active {
		m.mu.Lock()
		return
	}
	yield()
	for !m.mu.TryLock() {
		blockOn(wkLock, uintptrOf(&m.mu))
	}
}
func (m *RWMutex) Unlock() {
	m.mu.Unlock()
	if !active {
		return
	}
	wake(wkLock, uintptrOf(&m.mu), true)
	yield()
}
func (m *RWMutex) RLock() {
	if !active {
		m.mu.RLock()
		return
	}
	yield()
	for !m.mu.TryRLock() {
		blockOn(wkLock, uintptrOf(&m.mu))
	}
}
func (m *RWMutex) RUnlock() {
	m.mu.RUnlock()
	if !active {
		return
	}
	wake(wkLock, uintptrOf(&m.mu), true)
	yield()
}
func (m *RWMutex) TryLock() bool        { return m.mu.TryLock() }
func (m *RWMutex) TryRLock() bool       { return m.mu.TryRLock() }
func (m *RWMutex) RLocker() sync.Locker { return (*rlocker)(m) }

type rlocker RWMutex

func (r *rlocker) Lock()   { (*RWMutex)(r).RLock() }
func (r *rlocker) Unlock() { (*RWMutex)(r).RUnlock() }

// ---- Cond ---------------------------------------------------------------------------------------

type Cond struct {
	L    sync.Locker
	real *sync.Cond
}

func NewCond(l sync.Locker) *Cond { return &Cond{L: l, real: sync.NewCond(l)} }

//go:norace
func markWaiting(obj uintptr) {
	me := cur
	tasks[me].signalled = false
	tasks[me].kind, tasks[me].obj = wkCond, obj
}

//go:norace
func waitSignalled(obj uintptr) {
	me := cur
	for !tasks[me].signalled {
		Steps++
		tasks[me].state, tasks[me].kind, tasks[me].obj = stBlocked, wkCond, obj
		park(me)
	}
	tasks[me].kind = wkNone
}

//go:norace
func signal(obj uintptr, all bool) {
	for i := 0; i < nTasks; i++ {
		if tasks[i].kind == wkCond && tasks[i].obj == obj && !tasks[i].signalled {
			tasks[i].signalled = true
			if tasks[i].state == stBlocked {
				tasks[i].state = stRunnable
			}
			if !all {
				return
			}
		}
	}
}

func (c *Cond) Wait() {
	if !active {
		c.real.Wait()
		return
	}
	obj := uintptrOf2(c)
	markWaiting(obj) // registered before the lock is released: no lost wake-up
	c.L.Unlock()
	waitSignalled(obj)
	c.L.Lock()
}

func (c *Cond) Signal() {
	if !active {
		c.real.Signal()
		return
	}
	signal(uintptrOf2(c), false)
}

func (c *Cond) Broadcast() {
	if !active {
		c.real.Broadcast()
		return
	}
	signal(uintptrOf2(c), true)
}

// ---- time ---------------------------------------------------------------------------------------

//go:norace
func nowNs() int64 { return vnow }

func Now() time.Time {
	if !active {
		return time.Now()
	}
	return base.Add(time.Duration(nowNs()))
}
func Since(t time.Time) time.Duration { return Now().Sub(t) }
func Until(t time.Time) time.Duration { return t.Sub(Now()) }

//go:norace
func sleepUntil(at int64) {
	me := cur
	Steps++
	tasks[me].state, tasks[me].kind, tasks[me].wakeAt = stBlocked, wkSleep, at
	park(me)
	tasks[me].kind = wkNone
}

func Sleep(d time.Duration) {
	if !active {
		time.Sleep(d)
		return
	}
	if d <= 0 {
		yield()
		return
	}
	sleepUntil(nowNs() + int64(d))
}

//go:norace
func addTimer(at int64, f func()) (int, int64) {
	for i := range timers {
		if !timers[i].used || timers[i].fired {
			timerGen++
			timers[i] = timerT{gen: timerGen, used: true, at: at, f: f}
			return i, timerGen
		}
	}
	return -1, 0
}

//go:norace
func stopTimer(slot int, gen int64) bool {
	if slot < 0 || !timers[slot].used || timers[slot].fired || timers[slot].gen != gen {
		return false // already fired, stopped, or the slot belongs to a newer timer
	}
	timers[slot].used = false
	return true
}

// AfterFunc in a simulated run fires when every task is blocked and the virtual clock jumps to it.
func AfterFunc(d time.Duration, f func()) *SimTimer {
	if !active {
		return &SimTimer{real: time.AfterFunc(d, f), slot: -1}
	}
	if d < 0 {
		d = 0
	}
	slot, gen := addTimer(nowNs()+int64(d), f)
	if slot < 0 {
		panic("verifsimsync: too many timers")
	}
	timerHB[slot].Lock() // release
	timerHB[slot].Unlock()
	return &SimTimer{slot: slot, gen: gen}
}

type SimTimer struct {
	real *time.Timer
	slot int
	gen  int64
}

func (t *SimTimer) Stop() bool {
	if t.real != nil {
		return t.real.Stop()
	}
	return stopTimer(t.slot, t.gen)
}

// RecordedSoFar returns the schedule recorded up to now (used when a run cannot finish).
//
//go:norace
func RecordedSoFar() []uint8 {
	out := make([]uint8, recN)
	copy(out, rec[:recN])
	return out
}

//go:norace
func fillDeadInfo() {
	for i := 0; i < nTasks; i++ {
		DeadInfo[i] = tasks[i].state*10 + tasks[i].kind
	}
}
