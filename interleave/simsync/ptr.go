package verifsimsync

import "unsafe"

func uintptrOf(p interface{}) uintptr {
	type iface struct {
		t, d unsafe.Pointer
	}
	return uintptr((*iface)(unsafe.Pointer(&p)).d)
}

func uintptrOf2(c *Cond) uintptr { return uintptr(unsafe.Pointer(c)) }
