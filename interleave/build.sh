#!/bin/bash
# Builds engine E4's test binary: scratch copy of /repo with the lock-protected packages rewritten to
# verifsimsync, harness compiled against it with the race detector.  The scratch copy is removed again.
set -e
export GOFLAGS=-mod=mod GOPROXY=off GOSUMDB=off GOTOOLCHAIN=local
V="$(cd "$(dirname "$0")/.." && pwd)"
cd "$V"
mkdir -p build
S=$(mktemp -d /tmp/verif-e4-XXXXXX)
trap 'rm -rf "$S"' EXIT
REPO="${VERIF_REPO:-/repo}"
OUT="${VERIF_BUILD_OUT:-$V/build}"
go run ./interleave/rewrite "$REPO" "$V/interleave/simsync" "$S/repo" >/dev/null
# an alternative go.mod: same requirements, the library replaced by the rewritten copy
sed "s#=> /repo#=> $S/repo#" go.mod > "$S/go.mod"
cp go.sum "$S/go.sum"
go test -c -race -vet=off -tags "verif interleave" -modfile="$S/go.mod" -o "$OUT/interleave.test" ./interleave/harness
