//go:build interleave

package harness

import (
	"fmt"
	"strings"
	"testing"

	"github.com/Fantom-foundation/lachesis-base/kvdb"
	"github.com/Fantom-foundation/lachesis-base/kvdb/multidb"
	ss "github.com/Fantom-foundation/lachesis-base/verifsimsync"

	"verif/sim"
)

// ---- C26, second stage: routing is deterministic also when several callers route at once ------------
//
// multidb.Producer has no lock of its own: RouteOf works on immutable tables and per-call locals.  Several
// tasks route requests through one producer under the E4 scheduler (one task at a time, switches between
// calls); every answer must equal the answer a fresh producer gives to the same request alone, and the
// race detector must stay silent (the scheduler's hand-over adds no happens-before edge, so any state a
// compiled pattern shares between calls is reported).

var routeReqs = []string{"g-1", "g-5", "g-77", "g-abc", "e/1/2", "e/3/4", "e/10/20", "a", "a/x", "b", "g", ""}

func drawRoutes(c *sim.Ctx) map[string]multidb.Route {
	knob := func(name string, lo, hi int) int {
		return int(c.Knob(name, func() int64 { return int64(c.Int(name, lo, hi)) }))
	}
	rt := map[string]multidb.Route{"": {Type: "A", Name: "main"}}
	pats := []struct{ req, name string }{{"g-%d", "x-%d"}, {"g-%s", "y-%s"}, {"e/%d/%d", "e-%d-%d"}, {"e/%d/%d", "e-%d"}, {"a", "adb"}, {"a/x", "axdb"}}
	for i, p := range pats {
		if knob(fmt.Sprintf("route%d", i), 0, 1) == 1 {
			rt[p.req] = multidb.Route{Type: "A", Name: p.name, Table: []string{"", "t"}[knob(fmt.Sprintf("table%d", i), 0, 1)]}
		}
	}
	return rt
}

func RunRoutingConcurrent(c *sim.Ctx) {
	knob := func(name string, lo, hi int) int {
		return int(c.Knob(name, func() int64 { return int64(c.Int(name, lo, hi)) }))
	}
	rt := drawRoutes(c)
	nTasks := knob("tasks", 2, 4)
	seed := uint64(c.Knob("schedule_seed", func() int64 { return int64(c.Uint64("schedule_seed") >> 1) }))
	switchPm := []int{200, 500, 900}[knob("switch_permille", 0, 2)]
	c.ProbeDecl("pattern_route_used_by_two_tasks")
	producers := map[multidb.TypeName]kvdb.FullDBProducer{"A": nil}
	mk := func() *multidb.Producer {
		p, err := multidb.NewProducer(producers, rt, []byte{0xfd, 'r'})
		if err != nil {
			c.Abort()
		}
		return p
	}
	plans := make([][]sim.Op, nTasks)
	for t := 0; t < nTasks; t++ {
		n := knob(fmt.Sprintf("ops%d", t), 1, 6)
		for i := 0; i < n; i++ {
			op, _ := c.Next(func() (sim.Op, bool) {
				return sim.Op{K: "route", A: []int64{int64(c.Pick("req", len(routeReqs)))}}, true
			})
			if op.K != "route" || len(op.A) < 1 {
				continue
			}
			plans[t] = append(plans[t], op)
		}
	}
	var recorded []uint8
	if c.Replaying() {
		for _, o := range c.Trace.Ops {
			if o.K == "schedule" {
				recorded = make([]uint8, len(o.A))
				for i, x := range o.A {
					recorded[i] = uint8(x)
				}
			}
		}
	}
	// expectation: a fresh producer, one caller
	alone := mk()
	want := map[string]multidb.Route{}
	for _, r := range routeReqs {
		want[r] = alone.RouteOf(r)
	}
	shared := mk()
	got := make([][]multidb.Route, nTasks)
	fns := make([]func(), nTasks)
	patUsers := map[string]map[int]bool{}
	for t := 0; t < nTasks; t++ {
		t := t
		got[t] = make([]multidb.Route, len(plans[t]))
		for _, op := range plans[t] {
			r := routeReqs[int(op.A[0])%len(routeReqs)]
			if strings.HasPrefix(r, "g-") || strings.HasPrefix(r, "e/") {
				if patUsers[r[:2]] == nil {
					patUsers[r[:2]] = map[int]bool{}
				}
				patUsers[r[:2]][t] = true
			}
		}
		fns[t] = func() {
			for i, op := range plans[t] {
				got[t][i] = shared.RouteOf(routeReqs[int(op.A[0])%len(routeReqs)])
				ss.Yield()
			}
		}
	}
	for _, u := range patUsers {
		if len(u) >= 2 {
			c.Probe("pattern_route_used_by_two_tasks")
		}
	}
	newRaceReports()
	sched := ss.Run(ss.Config{Seed: seed, SwitchPm: switchPm, Replay: recorded}, fns)
	if !c.Replaying() {
		c.Trace.Ops = append(c.Trace.Ops, scheduleOp(sched))
	}
	c.SimTime(ss.Steps)
	c.Count("scheduler_choices", int64(len(sched)))
	c.State(sim.Mix(uint64(nTasks), sim.HashStr(string(sched))))
	if nTasks >= 2 {
		c.MarkNontrivial()
	}
	if len(ss.Panics) > 0 {
		c.Violation("panic", "panic/multidb.Producer", "a routing task panicked: %v", ss.Panics[0])
	}
	for t := range got {
		for i, op := range plans[t] {
			r := routeReqs[int(op.A[0])%len(routeReqs)]
			if got[t][i] != want[r] {
				c.Violation("routing", "routing/nondeterministic-under-concurrent-callers", "task %d: RouteOf(%q) = %v while other tasks were routing, a producer used by one caller answers %v", t, r, got[t][i], want[r])
			}
		}
	}
	if rep := newRaceReports(); strings.Contains(rep, "DATA RACE") {
		c.Count("race_reports", 1)
		first := rep
		if i := strings.Index(rep[10:], "=================="); i > 0 {
			first = rep[:i+10]
		}
		c.Violation("data-race", raceSignature(first), "multidb.Producer.RouteOf: calls by different tasks touch shared state without synchronisation (tasks ran strictly one at a time; the simulator adds no happens-before edge):\n%s", trim(first, 3500))
	}
}

func TestC26conc(t *testing.T) {
	raceLogInit()
	sim.Main(t, sim.Spec{Property: "C26", Engine: "E4-interleave", Run: RunRoutingConcurrent})
}
