//go:build interleave

// Package harness is the workload of engine E4 (DESIGN.md §3.4): client tasks over the rewritten,
// lock-protected components of a scratch copy of lachesis-base, run one at a time under the
// verifsimsync scheduler with the race detector on, histories checked with porcupine.
package harness

import (
	"bytes"
	"fmt"
	"os"
	"sort"
	"strings"
	"testing"
	"time"

	"github.com/anishathalye/porcupine"

	"github.com/Fantom-foundation/lachesis-base/gossip/dagordering"
	"github.com/Fantom-foundation/lachesis-base/hash"
	"github.com/Fantom-foundation/lachesis-base/inter/dag"
	"github.com/Fantom-foundation/lachesis-base/inter/idx"
	"github.com/Fantom-foundation/lachesis-base/kvdb"
	"github.com/Fantom-foundation/lachesis-base/kvdb/cachedproducer"
	"github.com/Fantom-foundation/lachesis-base/kvdb/flushable"
	"github.com/Fantom-foundation/lachesis-base/utils/datasemaphore"
	"github.com/Fantom-foundation/lachesis-base/utils/simplewlru"
	"github.com/Fantom-foundation/lachesis-base/utils/wlru"
	ss "github.com/Fantom-foundation/lachesis-base/verifsimsync"

	"verif/sim"
)

// ---- history ----------------------------------------------------------------------------------------

type hop struct {
	task     int
	op       sim.Op
	inv, ret int64
	out      string
	done     bool
}

type inOut struct {
	op  sim.Op
	out string
}

var keys = [][]byte{{0x01}, {0x02}, {0x01, 0x02}, {0xff}}

func kb(i int64) []byte { return keys[int(i)%len(keys)] }

// ---- race log ---------------------------------------------------------------------------------------

var raceLogPath string
var raceLogOff int64

func raceLogInit() {
	for _, kv := range strings.Fields(os.Getenv("GORACE")) {
		if strings.HasPrefix(kv, "log_path=") {
			raceLogPath = fmt.Sprintf("%s.%d", kv[len("log_path="):], os.Getpid())
		}
	}
}

// newRaceReports returns the race detector's reports written since the last call.
func newRaceReports() string {
	if raceLogPath == "" {
		return ""
	}
	b, err := os.ReadFile(raceLogPath)
	if err != nil || int64(len(b)) <= raceLogOff {
		return ""
	}
	s := string(b[raceLogOff:])
	raceLogOff = int64(len(b))
	return s
}

// raceSignature names the two conflicting accesses by their innermost lachesis-base functions.
func raceSignature(rep string) string {
	var fns []string
	lines := strings.Split(rep, "\n")
	for i, ln := range lines {
		t := strings.TrimSpace(ln)
		if strings.HasPrefix(t, "Read at") || strings.HasPrefix(t, "Write at") || strings.HasPrefix(t, "Previous read at") || strings.HasPrefix(t, "Previous write at") {
			for j := i + 1; j < len(lines) && strings.TrimSpace(lines[j]) != ""; j++ {
				f := strings.TrimSpace(lines[j])
				if strings.Contains(f, "lachesis-base/") && !strings.Contains(f, "verifsimsync") && !strings.HasPrefix(f, "/") {
					if k := strings.LastIndex(f, "("); k > 0 {
						f = f[:k]
					}
					f = f[strings.LastIndex(f, "/")+1:]
					fns = append(fns, f)
					break
				}
			}
		}
		if len(fns) == 2 {
			break
		}
	}
	sort.Strings(fns)
	return "race:" + strings.Join(fns, "<->")
}

// ---- one run ------------------------------------------------------------------------------------------

const (
	cFlushable = iota
	cLazy
	cPool
	cWlru
	cSemaphore
	cBuffer
	cCached
	nComponents
)

var compNames = [...]string{"Flushable", "LazyFlushable", "SyncedPool", "wlru.Cache", "DataSemaphore", "EventsBuffer", "cachedproducer"}

func RunInterleave(c *sim.Ctx, prop string) {
	knob := func(name string, lo, hi int) int {
		return int(c.Knob(name, func() int64 { return int64(c.Int(name, lo, hi)) }))
	}
	comp := cWlru
	if prop == "C28" {
		// cachedproducer is not among the components the property names; the pool (three databases, two locks) gets more runs
		comp = int(c.Knob("component", func() int64 { return int64(c.PickW("component", []int{2, 2, 6, 2, 2, 2})) }))
	}
	maxTasks, maxOps := 5, 8
	if c.Tier == "thorough" {
		maxTasks, maxOps = 8, 10
	}
	nTasks := knob("tasks", 2, maxTasks)
	poolMix = 0
	if comp == cPool {
		poolMix = knob("pool_operation_mix", 0, 2) // 0 all operations; 1, 2 writes, flushes and reads of the underlying databases only
	}
	if prop == "C29" {
		nTasks = knob("tasks_c29", 1, maxTasks)
	}
	seed := uint64(c.Knob("schedule_seed", func() int64 { return int64(c.Uint64("schedule_seed") >> 1) }))
	switchPm := []int{50, 200, 500, 900}[knob("switch_permille", 0, 3)]
	pct := knob("priority_schedule", 0, 2) == 0
	pctDepth := knob("priority_change_points", 1, 4)
	// reach probes ("this condition was met"); race reports and inconclusive histories are counted, not declared
	c.ProbeDecl("history_checked_by_porcupine", "context_switches_over_20")
	if prop == "C28" {
		c.ProbeDecl("underlying_read_through_kept_handle", "timer_fired", "blocked_task_woken")
	}

	// ---- plan: per task a list of ops, drawn up front ----
	plans := make([][]sim.Op, nTasks)
	total := 0
	for t := 0; t < nTasks; t++ {
		n := knob(fmt.Sprintf("ops%d", t), 1, maxOps)
		for i := 0; i < n; i++ {
			t := t
			op, _ := c.Next(func() (sim.Op, bool) { return genOp(c, comp, t), true })
			if c.Replaying() && op.K == "schedule" {
				break
			}
			plans[t] = append(plans[t], op)
			total++
		}
	}
	var recorded []uint8
	if c.Replaying() {
		for _, o := range c.Trace.Ops {
			if o.K == "schedule" {
				recorded = make([]uint8, len(o.A))
				for i, x := range o.A {
					recorded[i] = uint8(x)
				}
			}
		}
	}

	env := newEnv(c, comp)
	hist := make([][]hop, nTasks)
	fns := make([]func(), nTasks)
	for t := 0; t < nTasks; t++ {
		t := t
		hist[t] = make([]hop, len(plans[t]))
		fns[t] = func() {
			for i, op := range plans[t] {
				h := &hist[t][i]
				h.task, h.op = t, op
				h.inv = ss.Stamp()
				h.out = env.do(t, op)
				h.ret = ss.Stamp()
				h.done = true
				ss.Yield()
			}
		}
	}
	newRaceReports() // discard anything older
	cfg := ss.Config{Seed: seed, SwitchPm: switchPm, PCT: pct, PCTDepth: pctDepth, Replay: recorded}
	ss.OnDeadlock = func() {
		// every task is blocked and no timer is pending: report and end the process (goroutines cannot be unwound)
		tr := c.Trace
		tr.Ops = append(tr.Ops, scheduleOp(ss.RecordedSoFar()))
		sim.FailHard(c, "deadlock", "deadlock/"+compNames[comp], fmt.Sprintf("%s: every task is blocked and no timer is pending (task states %v)", compNames[comp], ss.DeadInfo[:2*nTasks]))
	}
	sched := ss.Run(cfg, fns)
	if !c.Replaying() {
		c.Trace.Ops = append(c.Trace.Ops, scheduleOp(sched))
	}
	c.SimTime(ss.Steps)
	c.Count("scheduler_choices", int64(len(sched)))
	for i := 0; i < env.keptReads; i++ {
		c.Probe("underlying_read_through_kept_handle")
	}
	if ss.Wakes > 0 {
		c.Probe("blocked_task_woken")
	}
	if ss.TimersFired > 0 {
		c.Probe("timer_fired")
	}
	c.Count("blocked_tasks_woken", ss.Wakes)
	c.Count("timers_fired", ss.TimersFired)
	switches := 0
	for i := 1; i < len(sched); i++ {
		if sched[i] != sched[i-1] {
			switches++
		}
	}
	c.Count("context_switches", int64(switches))
	if switches > 20 {
		c.Probe("context_switches_over_20")
	}
	c.State(sim.Mix(uint64(comp), sim.HashStr(string(sched))))
	if total >= 4 && nTasks >= 2 {
		c.MarkNontrivial()
	}

	// ---- verdicts ----
	if len(ss.Panics) > 0 {
		c.Violation("panic", "panic/"+compNames[comp], "%s: a task panicked: %v", compNames[comp], ss.Panics[0])
	}
	if rep := newRaceReports(); strings.Contains(rep, "DATA RACE") {
		c.Count("race_reports", 1)
		first := rep
		if i := strings.Index(rep[10:], "=================="); i > 0 {
			first = rep[:i+10]
		}
		c.Violation("data-race", raceSignature(first), "%s: the race detector reports accesses that the component's own synchronisation leaves unordered (tasks ran strictly one at a time; the simulator adds no happens-before edge):\n%s", compNames[comp], trim(first, 3500))
	}
	if msg := env.after(); msg != "" {
		c.Violation("invariant", "invariant/"+compNames[comp], "%s: %s", compNames[comp], msg)
	}
	// linearizability
	model, ok := env.model()
	if ok {
		splitFlush := false
		check := func(filter func(sim.Op) bool) porcupine.CheckResult {
			var ops []porcupine.Operation
			for t := range hist {
				for _, h := range hist[t] {
					if !h.done || !env.linearizable(h.op) || !filter(h.op) {
						continue
					}
					if splitFlush && h.op.K == "flushpool" {
						// a pool flush seen as one flush per database, each somewhere inside the call
						for d := int64(0); d < nPoolDBs; d++ {
							ops = append(ops, porcupine.Operation{ClientId: t, Input: sim.Op{K: "flushdb", A: []int64{0, 0, d}}, Call: h.inv, Output: h.out, Return: h.ret})
						}
						continue
					}
					ops = append(ops, porcupine.Operation{ClientId: t, Input: h.op, Call: h.inv, Output: h.out, Return: h.ret})
				}
			}
			return porcupine.CheckOperationsTimeout(model, ops, 10*time.Second)
		}
		res := check(func(sim.Op) bool { return true })
		c.Count("histories_checked", 1)
		switch res {
		case porcupine.Ok:
			c.Probe("history_checked_by_porcupine")
		case porcupine.Unknown:
			c.Count("porcupine_inconclusive", 1)
		case porcupine.Illegal:
			inconclusive := false
			sig := "linearizability/" + compNames[comp]
			if comp == cBuffer {
				// is the history illegal only because of the accessors that read without the buffer's mutex?
				switch check(func(o sim.Op) bool { return o.K != "total" && o.K != "isbuffered" }) {
				case porcupine.Ok:
					sig += "/total-or-isbuffered-observe-intermediate-state"
				case porcupine.Unknown:
					inconclusive = true // the second question timed out: no verdict at all for this history
				}
			}
			if comp == cPool {
				// is it illegal only because Flush(id) is not one atomic step across the databases *with respect to
				// concurrent writers*?  (Flush excludes the readers of the underlying databases for its whole
				// duration; writers take only their store's lock.)  The known finding needs a write that overlaps
				// a flush; without one a flush has to look atomic.
				writerOverlapsFlush := false
				for t := range hist {
					for _, f := range hist[t] {
						if !f.done || f.op.K != "flushpool" {
							continue
						}
						for u := range hist {
							for _, w := range hist[u] {
								if u != t && (w.op.K == "put" || w.op.K == "del") && (!w.done || w.inv < f.ret) && (w.done && w.ret > f.inv || !w.done) {
									writerOverlapsFlush = true
								}
							}
						}
					}
				}
				splitFlush = true
				r2 := check(func(sim.Op) bool { return true })
				splitFlush = false
				if c.Replaying() {
					fmt.Printf("  | pool history: one-step flush illegal; flush split per database: %v; a write overlaps a flush: %v\n", r2, writerOverlapsFlush)
				}
				switch {
				case r2 == porcupine.Unknown:
					inconclusive = true
				case r2 == porcupine.Ok && writerOverlapsFlush:
					sig += "/flush-not-atomic-across-databases"
				}
			}
			if inconclusive {
				c.Count("porcupine_inconclusive", 1)
				return
			}
			c.Violation("linearizability", sig, "%s: the recorded history has no sequential explanation that respects the order of non-overlapping calls:\n%s", compNames[comp], fmtHistory(hist))
		}
	}
}

func trim(s string, n int) string {
	if len(s) > n {
		return s[:n] + "..."
	}
	return s
}

func scheduleOp(s []uint8) sim.Op {
	a := make([]int64, len(s))
	for i, x := range s {
		a[i] = int64(x)
	}
	return sim.Op{K: "schedule", A: a}
}

func fmtHistory(hist [][]hop) string {
	var all []hop
	for _, h := range hist {
		all = append(all, h...)
	}
	sort.Slice(all, func(i, j int) bool { return all[i].inv < all[j].inv })
	var b bytes.Buffer
	for _, h := range all {
		fmt.Fprintf(&b, "  task %d [%d..%d] %s%v -> %s\n", h.task, h.inv, h.ret, h.op.K, h.op.A, h.out)
	}
	return b.String()
}

// ---- components ---------------------------------------------------------------------------------------

type env struct {
	c    *sim.Ctx
	comp int

	fl     *flushable.Flushable
	lazy   *flushable.LazyFlushable
	store  kvdb.FlushableKVStore
	nr     *NRStore
	pool   *flushable.SyncedPool
	pstore [nPoolDBs]kvdb.Store
	achievable map[[2]uint64]bool // (count, bytes) of every subset of the buffer's events
	evSizes    []int
	torn       string
	kept   [nPoolDBs]kvdb.Store
	keptReads int
	cache  *wlru.Cache
	cacheMaxW uint
	cacheMaxS int
	evicts []string
	sem    *datasemaphore.DataSemaphore
	warns  int
	buf    *dagordering.EventsBuffer
	evs    []*dag.BaseEvent
	conn   map[int]bool
	byID   map[hash.Event]int
	cached kvdb.DBProducer
	handles [2][]kvdb.Store
	under  *countingNR
}

var poolNames = []string{"a", "b", "c"}
var poolMix int


//go:norace
func (e *env) keptReadInc() { e.keptReads++ }

//go:norace
func (e *env) noteTorn(msg string) {
	if e.torn == "" {
		e.torn = msg
	}
}

var evParents = [][]int{{}, {0}, {0}, {1, 2}, {3}, {}}

func newEnv(c *sim.Ctx, comp int) *env {
	e := &env{c: c, comp: comp}
	switch comp {
	case cFlushable:
		e.nr = &NRStore{}
		_ = e.nr.Put(keys[0], []byte{9})
		e.fl = flushable.Wrap(e.nr)
		e.store = e.fl
	case cLazy:
		e.nr = &NRStore{}
		_ = e.nr.Put(keys[0], []byte{9})
		e.lazy = flushable.NewLazy(func() (kvdb.Store, error) { return e.nr, nil }, func() {})
		e.store = e.lazy
	case cPool:
		e.pool = flushable.NewSyncedPool(&NRProducer{}, []byte{0xf0})
		for i := range e.pstore {
			e.pstore[i], _ = e.pool.OpenDB(poolNames[i])
		}
		if c.Knob("underlying_handles_prepared", func() int64 { return int64(c.PickW("underlying_handles_prepared", []int{1, 3})) }) == 1 || poolMix >= 1 {
			// the application obtained the read-only handles of the underlying databases before its goroutines started
			for i := range e.kept {
				e.kept[i], _ = e.pool.GetUnderlying(poolNames[i])
			}
		}
	case cWlru:
		maxW := int(c.Knob("max_weight", func() int64 { return int64(c.Int("max_weight", 0, 8)) }))
		maxS := int(c.Knob("max_size", func() int64 { return int64(c.Int("max_size", 0, 4)) }))
		e.cacheMaxW, e.cacheMaxS = uint(maxW), maxS
		if c.Knob("cache_without_eviction_callback", func() int64 { return int64(c.PickW("cache_without_eviction_callback", []int{3, 1})) }) == 1 {
			e.cache, _ = wlru.New(uint(maxW), maxS)
		} else {
			e.cache, _ = wlru.NewWithEvict(uint(maxW), maxS, func(k, v interface{}) { e.evicts = append(e.evicts, fmt.Sprintf("%v=%v", k, v)) })
		}
	case cSemaphore:
		e.sem = datasemaphore.New(dag.Metric{Num: 4, Size: 40}, func(a, b, c dag.Metric) { e.warns++ })
	case cBuffer:
		e.conn, e.byID = map[int]bool{}, map[hash.Event]int{}
		for i, ps := range evParents {
			me := &dag.MutableBaseEvent{}
			me.SetEpoch(1)
			me.SetSeq(idx.Event(i + 1))
			me.SetCreator(1)
			me.SetLamport(idx.Lamport(i + 1))
			me.SetFrame(1)
			var hs hash.Events
			for _, p := range ps {
				hs = append(hs, e.evs[p].ID())
			}
			me.SetParents(hs)
			var rid [24]byte
			rid[0] = byte(i + 1)
			ev := me.Build(rid)
			e.evs = append(e.evs, ev)
			e.byID[ev.ID()] = i
		}
		e.achievable = map[[2]uint64]bool{}
		for _, ev := range e.evs {
			e.evSizes = append(e.evSizes, ev.Size())
		}
		for m := 0; m < 1<<len(e.evs); m++ {
			var n, sz uint64
			for i := range e.evs {
				if m&(1<<i) != 0 {
					n++
					sz += uint64(e.evSizes[i])
				}
			}
			e.achievable[[2]uint64{n, sz}] = true
		}
		e.buf = dagordering.New(dag.Metric{Num: 100, Size: 1 << 20}, dagordering.Callback{
			Process:  func(ev dag.Event) error { e.conn[e.byID[ev.ID()]] = true; return nil },
			Released: func(dag.Event, string, error) {},
			Get: func(h hash.Event) dag.Event {
				if i, ok := e.byID[h]; ok && e.conn[i] {
					return e.evs[i]
				}
				return nil
			},
			Exists: func(h hash.Event) bool { i, ok := e.byID[h]; return ok && e.conn[i] },
			Check:  func(dag.Event, dag.Events) error { return nil },
		})
	case cCached:
		e.under = &countingNR{}
		e.cached = cachedproducer.Wrap(e.under)
	}
	return e
}

type countingNR struct {
	opens  [2]int
	closes [2]int
}

type countedStore struct {
	*NRStore
	p *countingNR
	i int
}

//go:norace
func (p *countingNR) OpenDB(name string) (kvdb.Store, error) {
	i := 0
	if name == "b" {
		i = 1
	}
	p.opens[i]++
	return &countedStore{NRStore: &NRStore{}, p: p, i: i}, nil
}

//go:norace
func (s *countedStore) Close() error { s.p.closes[s.i]++; return nil }

func genOp(c *sim.Ctx, comp, task int) sim.Op {
	k := int64(c.Pick("key", len(keys)))
	v := int64(c.Int("val", 1, 250))
	switch comp {
	case cFlushable, cLazy:
		w := []int{8, 4, 6, 3, 3, 2, 3, 2, 3, 2, 1, 1, 0}
		if comp == cLazy {
			w[12] = 2
		}
		names := []string{"put", "del", "get", "has", "flush", "dropnf", "nfpairs", "nfsize", "snapget", "batch", "scan", "stat", "initunder"}
		return sim.Op{K: names[c.PickW("op", w)], A: []int64{k, v, int64(c.Pick("key2", len(keys)))}}
	case cPool:
		names := []string{"put", "get", "del", "flushpool", "underget", "nfsize", "names", "has"}
		w := []int{8, 6, 3, 3, 4, 2, 1, 3}
		if poolMix >= 1 {
			// swarm: a run made of writes, flushes and reads of the underlying databases only (what a flush looks like to those readers)
			w = []int{5, 0, 1, 4, 10, 0, 0, 0}
		}
		return sim.Op{K: names[c.PickW("op", w)], A: []int64{k, v, int64(c.Pick("db", nPoolDBs))}}
	case cWlru:
		names := []string{"add", "get", "peek", "contains", "remove", "len", "keys", "total", "purge", "resize", "containsoradd", "peekoradd", "removeoldest", "getoldest", "weight"}
		return sim.Op{K: names[c.PickW("op", []int{10, 6, 3, 3, 3, 2, 3, 2, 1, 1, 4, 4, 2, 2, 1})], A: []int64{k, v, int64(c.Int("weight", 0, 6)), int64(c.Int("size", 0, 4))}}
	case cSemaphore:
		names := []string{"acquire", "try", "release", "processing", "available", "terminate"}
		return sim.Op{K: names[c.PickW("op", []int{8, 4, 10, 3, 2, 1})], A: []int64{int64(c.Int("num", 0, 3)), int64(c.Int("size", 0, 3)) * 10, int64([]int{1, 50, 1000}[c.Pick("timeout", 3)])}}
	case cBuffer:
		names := []string{"push", "isbuffered", "total", "clear"}
		return sim.Op{K: names[c.PickW("op", []int{10, 4, 3, 1})], A: []int64{int64(c.Pick("event", len(evParents)))}}
	default:
		names := []string{"open", "close"}
		return sim.Op{K: names[c.PickW("op", []int{5, 5})], A: []int64{int64(c.Pick("db", 2))}}
	}
}

func bstr(b []byte, err error) string {
	if err != nil {
		return "err:" + err.Error()
	}
	if b == nil {
		return "nil"
	}
	return fmt.Sprintf("%x", b)
}

func (e *env) do(task int, op sim.Op) string {
	a := func(i int) int64 {
		if i < len(op.A) {
			return op.A[i]
		}
		return 0
	}
	switch e.comp {
	case cFlushable, cLazy:
		st := e.store
		switch op.K {
		case "put":
			return fmt.Sprint(st.Put(kb(a(0)), []byte{byte(a(1))}))
		case "del":
			return fmt.Sprint(st.Delete(kb(a(0))))
		case "get":
			return bstr(st.Get(kb(a(0))))
		case "has":
			ok, err := st.Has(kb(a(0)))
			return fmt.Sprint(ok, err)
		case "flush":
			return fmt.Sprint(st.Flush())
		case "dropnf":
			st.DropNotFlushed()
			return ""
		case "nfpairs":
			return fmt.Sprint(st.NotFlushedPairs())
		case "nfsize":
			_ = st.NotFlushedSizeEst()
			return ""
		case "snapget":
			sn, err := st.GetSnapshot()
			if err != nil {
				return "err:" + err.Error()
			}
			r := bstr(sn.Get(kb(a(0))))
			sn.Release()
			return r
		case "batch":
			b := st.NewBatch()
			_ = b.Put(kb(a(0)), []byte{byte(a(1))})
			_ = b.Delete(kb(a(2)))
			return fmt.Sprint(b.Write())
		case "scan":
			it := st.NewIterator(nil, nil)
			n := 0
			var last []byte
			for it.Next() {
				if last != nil && bytes.Compare(it.Key(), last) <= 0 {
					return "unordered"
				}
				last = append([]byte{}, it.Key()...)
				n++
			}
			it.Release()
			return ""
		case "stat":
			_, _ = st.Stat("x")
			_ = st.Compact(nil, nil)
			return ""
		case "initunder":
			if e.lazy != nil {
				_, err := e.lazy.InitUnderlyingDb()
				return fmt.Sprint(err)
			}
		}
	case cPool:
		st := e.pstore[int(a(2))%nPoolDBs]
		name := poolNames[int(a(2))%nPoolDBs]
		switch op.K {
		case "put":
			return fmt.Sprint(st.Put(kb(a(0)), []byte{byte(a(1))}))
		case "del":
			return fmt.Sprint(st.Delete(kb(a(0))))
		case "get":
			return bstr(st.Get(kb(a(0))))
		case "has":
			ok, err := st.Has(kb(a(0)))
			return fmt.Sprint(ok, err)
		case "flushpool":
			return fmt.Sprint(e.pool.Flush([]byte{byte(a(1))}))
		case "underget":
			// an application keeps the read-only handle of an underlying database and reads through it later
			// (also while a flush is running); handles are obtained once per database and shared by the tasks
			di := int(a(2)) % nPoolDBs
			u := e.kept[di] // written before the tasks started, read-only afterwards
			if u == nil || a(1)%4 == 0 {
				var err error
				u, err = e.pool.GetUnderlying(name)
				if err != nil {
					return "err:" + err.Error()
				}
			} else {
				e.keptReadInc()
			}
			return bstr(u.Get(kb(a(0))))
		case "nfsize":
			_ = e.pool.NotFlushedSizeEst()
			return ""
		case "names":
			_ = e.pool.Names()
			return ""
		}
	case cWlru:
		ch := e.cache
		key := int(a(0))
		switch op.K {
		case "add":
			return fmt.Sprint(ch.Add(key, int(a(1)), uint(a(2))))
		case "get":
			v, ok := ch.Get(key)
			return fmt.Sprint(v, ok)
		case "peek":
			v, ok := ch.Peek(key)
			return fmt.Sprint(v, ok)
		case "contains":
			return fmt.Sprint(ch.Contains(key))
		case "remove":
			ch.Remove(key)
			return ""
		case "len":
			return fmt.Sprint(ch.Len())
		case "keys":
			return fmt.Sprint(ch.Keys())
		case "total":
			w, n := ch.Total()
			return fmt.Sprint(w, n)
		case "weight":
			return fmt.Sprint(ch.Weight())
		case "purge":
			ch.Purge()
			return ""
		case "resize":
			return fmt.Sprint(ch.Resize(uint(a(2)), int(a(3))))
		case "containsoradd":
			ok, ev := ch.ContainsOrAdd(key, int(a(1)), uint(a(2)))
			return fmt.Sprint(ok, ev)
		case "peekoradd":
			prev, ok, ev := ch.PeekOrAdd(key, int(a(1)), uint(a(2)))
			return fmt.Sprint(prev, ok, ev)
		case "removeoldest":
			k, v, ok := ch.RemoveOldest()
			return fmt.Sprint(k, v, ok)
		case "getoldest":
			k, v, ok := ch.GetOldest()
			return fmt.Sprint(k, v, ok)
		}
	case cSemaphore:
		w := dag.Metric{Num: idx.Event(a(0)), Size: uint64(a(1))}
		switch op.K {
		case "acquire":
			return fmt.Sprint(e.sem.Acquire(w, time.Duration(a(2))*time.Millisecond))
		case "try":
			return fmt.Sprint(e.sem.TryAcquire(w))
		case "release":
			e.sem.Release(w)
			return ""
		case "processing":
			p := e.sem.Processing()
			return fmt.Sprint(p.Num, p.Size)
		case "available":
			_ = e.sem.Available()
			return ""
		case "terminate":
			e.sem.Terminate()
			return ""
		}
	case cBuffer:
		i := int(a(0)) % len(e.evs)
		switch op.K {
		case "push":
			return fmt.Sprint(e.buf.PushEvent(e.evs[i], fmt.Sprintf("t%d", task)))
		case "isbuffered":
			return fmt.Sprint(e.buf.IsBuffered(e.evs[i].ID()))
		case "total":
			t := e.buf.Total()
			// whatever moment the lock-free accessor reads, the count and the byte size belong to ONE set of buffered events
			if !e.achievable[[2]uint64{uint64(t.Num), t.Size}] {
				e.noteTorn(fmt.Sprintf("Total() = {Num: %d, Size: %d}: no set of the %d events has that count and that size (event sizes %v)", t.Num, t.Size, len(e.evs), e.evSizes))
			}
			return fmt.Sprint(t.Num)
		case "clear":
			e.buf.Clear()
			return ""
		}
	case cCached:
		i := int(a(0)) % 2
		name := []string{"a", "b"}[i]
		switch op.K {
		case "open":
			h, err := e.cached.OpenDB(name)
			if err != nil {
				return "err"
			}
			e.pushHandle(task, i, h)
			return "ok"
		case "close":
			if h := e.popHandle(task, i); h != nil {
				return fmt.Sprint(h.Close())
			}
			return "none"
		}
	}
	return ""
}

// per-task handle stacks of the cachedproducer workload (only touched by the owning task)
var handleStacks [ss.MaxTasks][2][]kvdb.Store

func (e *env) pushHandle(task, i int, h kvdb.Store) { handleStacks[task][i] = append(handleStacks[task][i], h) }
func (e *env) popHandle(task, i int) kvdb.Store {
	s := handleStacks[task][i]
	if len(s) == 0 {
		return nil
	}
	h := s[len(s)-1]
	handleStacks[task][i] = s[:len(s)-1]
	return h
}

// after: invariants checked once every task has finished.
func (e *env) after() string {
	if e.torn != "" {
		return e.torn
	}
	switch e.comp {
	case cCached:
		defer func() {
			for t := range handleStacks {
				handleStacks[t] = [2][]kvdb.Store{}
			}
		}()
		for i := 0; i < 2; i++ {
			open := 0
			for t := range handleStacks {
				open += len(handleStacks[t][i])
			}
			// every open was matched by a close unless still held: underlying closes <= underlying opens,
			// and with nothing held every underlying instance must have been closed exactly once
			if e.under.closes[i] > e.under.opens[i] {
				return fmt.Sprintf("database %d: underlying closed %d times but opened %d times", i, e.under.closes[i], e.under.opens[i])
			}
			if open == 0 && e.under.closes[i] != e.under.opens[i] {
				return fmt.Sprintf("database %d: every open was closed, but the underlying database was opened %d times and closed %d times", i, e.under.opens[i], e.under.closes[i])
			}
		}
	case cSemaphore:
		if p := e.sem.Processing(); p.Num > 4 || p.Size > 40 {
			return fmt.Sprintf("semaphore holds %v, capacity {4 40}", p)
		}
	}
	return ""
}

func (e *env) linearizable(op sim.Op) bool {
	switch e.comp {
	case cFlushable, cLazy:
		switch op.K {
		case "scan", "stat", "nfsize": // multi-step / no observable result
			return false
		}
		return true
	case cPool:
		return op.K != "nfsize" && op.K != "names"
	case cWlru:
		return true
	case cSemaphore:
		return op.K != "available"
	case cBuffer:
		return true
	}
	return false
}

func TestC28(t *testing.T) {
	raceLogInit()
	sim.Main(t, sim.Spec{Property: "C28", Engine: "E4-interleave", Run: func(c *sim.Ctx) { RunInterleave(c, "C28") }})
}

func TestC29(t *testing.T) {
	raceLogInit()
	sim.Main(t, sim.Spec{Property: "C29", Engine: "E4-interleave", Run: func(c *sim.Ctx) {
		if c.Knob("mode", func() int64 { return int64(c.Pick("mode", 2)) }) == 0 {
			RunSimpleLRU(c)
		} else {
			RunInterleave(c, "C29")
		}
	}})
}

// RunSimpleLRU drives utils/simplewlru from one task, result for result against LRUModel, with the
// bounds checked after every operation and every removed entry reported to the callback exactly once.
func RunSimpleLRU(c *sim.Ctx) {
	maxW := int(c.Knob("max_weight", func() int64 { return int64(c.Int("max_weight", 0, 8)) }))
	maxS := int(c.Knob("max_size", func() int64 { return int64(c.Int("max_size", 0, 4)) }))
	n := int(c.Knob("ops", func() int64 { return int64(c.Int("ops", 1, 30)) }))
	c.ProbeDecl("eviction_by_weight_or_size", "entry_heavier_than_bound", "resize_evicts", "purge_with_entries")
	var evicted []string
	cache, err := simplewlru.NewWithEvict(uint(maxW), maxS, func(k, v interface{}) { evicted = append(evicted, fmt.Sprintf("%v=%v", k, v)) })
	if err != nil {
		c.Violation("lru-error", "lru-error", "NewWithEvict: %v", err)
	}
	m := &LRUModel{maxW: uint(maxW), maxS: maxS}
	e := &env{c: c, comp: cWlru}
	for i := 0; i < n; i++ {
		op, ok := c.Next(func() (sim.Op, bool) { return genOp(c, cWlru, 0), true })
		if !ok {
			break
		}
		c.SimTime(1)
		got := doSimple(cache, op)
		m.Evicted = nil
		want := m.Apply(op)
		if got != want {
			c.Violation("lru-model", "lru-model/result", "after %d operations: %s%v returned %q, the LRU model says %q (model entries oldest first: %v, bounds %d/%d)", i, op.K, op.A, got, want, m.e, m.maxW, m.maxS)
		}
		if op.K == "purge" { // Purge walks a Go map: the order of the callbacks is not part of the property
			sort.Strings(evicted)
			sort.Strings(m.Evicted)
		}
		if fmt.Sprint(evicted) != fmt.Sprint(m.Evicted) {
			c.Violation("lru-model", "lru-model/eviction-callback", "%s%v: eviction callback received %v, the model evicts %v", op.K, op.A, evicted, m.Evicted)
		}
		if len(m.Evicted) > 0 && op.K != "remove" && op.K != "removeoldest" && op.K != "purge" {
			c.Probe("eviction_by_weight_or_size")
		}
		if op.K == "add" && uint(arg(op, 2)) > m.maxW {
			c.Probe("entry_heavier_than_bound")
		}
		if op.K == "resize" && len(m.Evicted) > 0 {
			c.Probe("resize_evicts")
		}
		if op.K == "purge" && len(m.Evicted) > 0 {
			c.Probe("purge_with_entries")
		}
		evicted = nil
		// bounds and order after every operation
		if cache.Len() > m.maxS || cache.Weight() > m.maxW {
			c.Violation("lru-bounds", "lru-bounds", "after %s%v the cache holds %d entries / weight %d, bounds are %d / %d", op.K, op.A, cache.Len(), cache.Weight(), m.maxS, m.maxW)
		}
		if k := fmt.Sprint(cache.Keys()); k != m.Apply(sim.Op{K: "keys"}) {
			c.Violation("lru-model", "lru-model/keys-order", "after %s%v Keys() = %s, the model (oldest to newest) has %s", op.K, op.A, k, m.Apply(sim.Op{K: "keys"}))
		}
	}
	_ = e
	if n >= 4 {
		c.MarkNontrivial()
	}
	c.State(sim.Mix(uint64(maxW), uint64(maxS), uint64(len(m.e))))
}

func doSimple(ch *simplewlru.Cache, op sim.Op) string {
	key, v, w, sz := int(arg(op, 0)), int(arg(op, 1)), uint(arg(op, 2)), int(arg(op, 3))
	switch op.K {
	case "add":
		return fmt.Sprint(ch.Add(key, v, w))
	case "get":
		x, ok := ch.Get(key)
		return fmt.Sprint(x, ok)
	case "peek":
		x, ok := ch.Peek(key)
		return fmt.Sprint(x, ok)
	case "contains":
		return fmt.Sprint(ch.Contains(key))
	case "remove":
		ch.Remove(key)
		return ""
	case "len":
		return fmt.Sprint(ch.Len())
	case "keys":
		return fmt.Sprint(ch.Keys())
	case "total":
		a, b := ch.Total()
		return fmt.Sprint(a, b)
	case "weight":
		return fmt.Sprint(ch.Weight())
	case "purge":
		ch.Purge()
		return ""
	case "resize":
		return fmt.Sprint(ch.Resize(w, sz))
	case "containsoradd": // simplewlru has no such call: the wlru definition (contains, else add)
		if ch.Contains(key) {
			return fmt.Sprint(true, 0)
		}
		return fmt.Sprint(false, ch.Add(key, v, w))
	case "peekoradd":
		if x, ok := ch.Peek(key); ok {
			return fmt.Sprint(x, true, 0)
		}
		return fmt.Sprint(nil, false, ch.Add(key, v, w))
	case "removeoldest":
		a, b, ok := ch.RemoveOldest()
		return fmt.Sprint(a, b, ok)
	case "getoldest":
		a, b, ok := ch.GetOldest()
		return fmt.Sprint(a, b, ok)
	}
	return ""
}

var _ = simplewlru.New
