//go:build interleave

package harness

import (
	"fmt"
	"sort"
	"strings"

	"github.com/anishathalye/porcupine"

	"verif/sim"
)

// ---- small helpers: canonical string maps as porcupine states -------------------------------------------

type smap map[string]string

func parseMap(s string) smap {
	m := smap{}
	if s == "" {
		return m
	}
	for _, kv := range strings.Split(s, ";") {
		i := strings.Index(kv, "=")
		m[kv[:i]] = kv[i+1:]
	}
	return m
}

func (m smap) String() string {
	var ks []string
	for k := range m {
		ks = append(ks, k)
	}
	sort.Strings(ks)
	var parts []string
	for _, k := range ks {
		parts = append(parts, k+"="+m[k])
	}
	return strings.Join(parts, ";")
}

const tomb = "DEL"

func hexKey(i int64) string { return fmt.Sprintf("%x", kb(i)) }
func hexVal(v int64) string { return fmt.Sprintf("%x", []byte{byte(v)}) }

func arg(op sim.Op, i int) int64 {
	if i < len(op.A) {
		return op.A[i]
	}
	return 0
}

// ---- KV model: underlying + overlay with tombstones (Flushable, LazyFlushable, one pool database) ----------

type kvState struct {
	under, over string
	init        bool
}

func kvGet(st kvState, k string) string {
	over := parseMap(st.over)
	if v, ok := over[k]; ok {
		if v == tomb {
			return "nil"
		}
		return v
	}
	if st.init {
		if v, ok := parseMap(st.under)[k]; ok {
			return v
		}
	}
	return "nil"
}

func kvStep(st kvState, op sim.Op, out string) (bool, kvState) {
	k, v := hexKey(arg(op, 0)), hexVal(arg(op, 1))
	switch op.K {
	case "put":
		o := parseMap(st.over)
		o[k] = v
		st.over = o.String()
		return out == "<nil>", st
	case "del":
		o := parseMap(st.over)
		o[k] = tomb
		st.over = o.String()
		return out == "<nil>", st
	case "get", "snapget":
		return out == kvGet(st, k), st
	case "has":
		return out == fmt.Sprint(kvGet(st, k) != "nil", nil), st
	case "batch":
		o := parseMap(st.over)
		o[k] = v
		o[hexKey(arg(op, 2))] = tomb
		st.over = o.String()
		return out == "<nil>", st
	case "flush":
		u, o := parseMap(st.under), parseMap(st.over)
		for kk, vv := range o {
			if vv == tomb {
				delete(u, kk)
			} else {
				u[kk] = vv
			}
		}
		st.under, st.over, st.init = u.String(), "", true
		return out == "<nil>", st
	case "dropnf":
		st.over = ""
		return true, st
	case "nfpairs":
		return out == fmt.Sprint(len(parseMap(st.over))), st
	case "initunder":
		st.init = true
		return out == "<nil>", st
	}
	return true, st
}

func kvModel(lazy bool) porcupine.Model {
	return porcupine.Model{
		Init: func() interface{} { return kvState{under: smap{hexKey(0): "09"}.String(), init: !lazy} },
		Step: func(state, input, output interface{}) (bool, interface{}) {
			ok, ns := kvStep(state.(kvState), input.(sim.Op), output.(string))
			return ok, ns
		},
		Equal: func(a, b interface{}) bool { return a.(kvState) == b.(kvState) },
		DescribeOperation: func(in, out interface{}) string {
			return fmt.Sprintf("%s%v -> %s", in.(sim.Op).K, in.(sim.Op).A, out)
		},
	}
}

// ---- pool model: three databases, flush moves all overlays down -------------------------------------------

const nPoolDBs = 3

type poolState struct{ db [nPoolDBs]kvState }

func poolModel() porcupine.Model {
	return porcupine.Model{
		Init: func() interface{} { return poolState{} },
		Step: func(state, input, output interface{}) (bool, interface{}) {
			st, op, out := state.(poolState), input.(sim.Op), output.(string)
			d := int(arg(op, 2)) % nPoolDBs
			switch op.K {
			case "flushpool":
				for i := range st.db {
					_, st.db[i] = kvStep(st.db[i], sim.Op{K: "flush"}, "<nil>")
				}
				return out == "<nil>", st
			case "flushdb":
				_, st.db[d] = kvStep(st.db[d], sim.Op{K: "flush"}, "<nil>")
				return out == "<nil>", st
			case "underget":
				// the read-only view of the underlying database: flushed data only (the database is produced on first use)
				st.db[d].init = true
				u := parseMap(st.db[d].under)
				want := "nil"
				if v, ok := u[hexKey(arg(op, 0))]; ok {
					want = v
				}
				return out == want, st
			default:
				ok, ns := kvStep(st.db[d], op, out)
				st.db[d] = ns
				return ok, st
			}
		},
		Equal: func(a, b interface{}) bool { return a.(poolState) == b.(poolState) },
	}
}

// ---- LRU model ------------------------------------------------------------------------------------------------

type lruEntry struct {
	k, v int
	w    uint
}

type LRUModel struct {
	maxW uint
	maxS int
	e    []lruEntry // oldest first
	Evicted []string
}

func (m *LRUModel) clone() *LRUModel {
	c := *m
	c.e = append([]lruEntry{}, m.e...)
	c.Evicted = nil
	return &c
}

func (m *LRUModel) weight() uint {
	var w uint
	for _, x := range m.e {
		w += x.w
	}
	return w
}

func (m *LRUModel) find(k int) int {
	for i, x := range m.e {
		if x.k == k {
			return i
		}
	}
	return -1
}

func (m *LRUModel) evictOldest() {
	x := m.e[0]
	m.e = m.e[1:]
	m.Evicted = append(m.Evicted, fmt.Sprintf("%v=%v", x.k, x.v))
}

func (m *LRUModel) normalize() int {
	n := 0
	for len(m.e) > 0 && (m.weight() > m.maxW || len(m.e) > m.maxS) {
		m.evictOldest()
		n++
	}
	return n
}

func (m *LRUModel) Add(k, v int, w uint) int {
	if i := m.find(k); i >= 0 {
		m.e = append(m.e[:i], m.e[i+1:]...)
	}
	m.e = append(m.e, lruEntry{k, v, w})
	return m.normalize()
}

func (m *LRUModel) touch(i int) {
	x := m.e[i]
	m.e = append(append(m.e[:i:i], m.e[i+1:]...), x)
}

// Apply executes one operation and returns the expected output string.
func (m *LRUModel) Apply(op sim.Op) string {
	k, v, w, sz := int(arg(op, 0)), int(arg(op, 1)), uint(arg(op, 2)), int(arg(op, 3))
	switch op.K {
	case "add":
		return fmt.Sprint(m.Add(k, v, w))
	case "get":
		if i := m.find(k); i >= 0 {
			val := m.e[i].v
			m.touch(i)
			return fmt.Sprint(val, true)
		}
		return fmt.Sprint(nil, false)
	case "peek":
		if i := m.find(k); i >= 0 {
			return fmt.Sprint(m.e[i].v, true)
		}
		return fmt.Sprint(nil, false)
	case "contains":
		return fmt.Sprint(m.find(k) >= 0)
	case "remove":
		if i := m.find(k); i >= 0 {
			x := m.e[i]
			m.e = append(m.e[:i:i], m.e[i+1:]...)
			m.Evicted = append(m.Evicted, fmt.Sprintf("%v=%v", x.k, x.v))
		}
		return ""
	case "len":
		return fmt.Sprint(len(m.e))
	case "keys":
		ks := make([]interface{}, len(m.e))
		for i, x := range m.e {
			ks[i] = x.k
		}
		return fmt.Sprint(ks)
	case "total":
		return fmt.Sprint(m.weight(), len(m.e))
	case "weight":
		return fmt.Sprint(m.weight())
	case "purge":
		for len(m.e) > 0 {
			m.evictOldest()
		}
		return ""
	case "resize":
		m.maxW, m.maxS = w, sz
		return fmt.Sprint(m.normalize())
	case "containsoradd":
		if m.find(k) >= 0 {
			return fmt.Sprint(true, 0)
		}
		return fmt.Sprint(false, m.Add(k, v, w))
	case "peekoradd":
		if i := m.find(k); i >= 0 {
			return fmt.Sprint(m.e[i].v, true, 0)
		}
		return fmt.Sprint(nil, false, m.Add(k, v, w))
	case "removeoldest":
		if len(m.e) == 0 {
			return fmt.Sprint(nil, nil, false)
		}
		x := m.e[0]
		m.evictOldest()
		return fmt.Sprint(x.k, x.v, true)
	case "getoldest":
		if len(m.e) == 0 {
			return fmt.Sprint(nil, nil, false)
		}
		return fmt.Sprint(m.e[0].k, m.e[0].v, true)
	}
	return ""
}

func (m *LRUModel) key() string { return fmt.Sprint(m.maxW, m.maxS, m.e) }

func lruPorcupine(maxW uint, maxS int) porcupine.Model {
	return porcupine.Model{
		Init: func() interface{} { return &LRUModel{maxW: maxW, maxS: maxS} },
		Step: func(state, input, output interface{}) (bool, interface{}) {
			m := state.(*LRUModel).clone()
			want := m.Apply(input.(sim.Op))
			return want == output.(string), m
		},
		Equal: func(a, b interface{}) bool { return a.(*LRUModel).key() == b.(*LRUModel).key() },
		DescribeOperation: func(in, out interface{}) string {
			return fmt.Sprintf("%s%v -> %s", in.(sim.Op).K, in.(sim.Op).A, out)
		},
	}
}

// ---- semaphore model ----------------------------------------------------------------------------------------------

type semState struct {
	num, size  int64
	terminated bool
}

func semModel() porcupine.Model {
	const capN, capS = 4, 40
	return porcupine.Model{
		Init: func() interface{} { return semState{} },
		Step: func(state, input, output interface{}) (bool, interface{}) {
			st, op, out := state.(semState), input.(sim.Op), output.(string)
			n, s := arg(op, 0), arg(op, 1)
			fits := st.num+n <= capN && st.size+s <= capS && !st.terminated
			if st.terminated && n == 0 && s == 0 {
				fits = st.num == 0 && st.size == 0
			}
			switch op.K {
			case "acquire":
				if out == "true" {
					if !fits {
						return false, st
					}
					st.num, st.size = st.num+n, st.size+s
				}
				return true, st // a refusal (timeout) changes nothing; C30 decides whether it was justified
			case "try":
				if out == "true" {
					if !fits {
						return false, st
					}
					st.num, st.size = st.num+n, st.size+s
					return true, st
				}
				return !fits, st
			case "release":
				if st.num < n || st.size < s {
					st.num, st.size = 0, 0
				} else {
					st.num, st.size = st.num-n, st.size-s
				}
				return true, st
			case "processing":
				return out == fmt.Sprint(st.num, st.size), st
			case "terminate":
				st.terminated = true
				return true, st
			}
			return true, st
		},
		Equal: func(a, b interface{}) bool { return a.(semState) == b.(semState) },
	}
}

// ---- ordering buffer model (ample limits, nothing fails) --------------------------------------------------------------

type bufState struct{ conn, buffered uint32 } // bitsets over the fixed events

func bufModel() porcupine.Model {
	return porcupine.Model{
		Init: func() interface{} { return bufState{} },
		Step: func(state, input, output interface{}) (bool, interface{}) {
			st, op, out := state.(bufState), input.(sim.Op), output.(string)
			i := int(arg(op, 0)) % len(evParents)
			bit := uint32(1) << uint(i)
			complete := func(j int) bool {
				for _, p := range evParents[j] {
					if st.conn&(1<<uint(p)) == 0 {
						return false
					}
				}
				return true
			}
			switch op.K {
			case "push":
				if st.conn&bit != 0 || st.buffered&bit != 0 {
					return out == "false", st
				}
				if !complete(i) {
					st.buffered |= bit
					return out == "false", st
				}
				st.conn |= bit
				for changed := true; changed; {
					changed = false
					for j := range evParents {
						jb := uint32(1) << uint(j)
						if st.buffered&jb != 0 && complete(j) {
							st.buffered &^= jb
							st.conn |= jb
							changed = true
						}
					}
				}
				return out == "true", st
			case "isbuffered":
				return out == fmt.Sprint(st.buffered&bit != 0), st
			case "total":
				n := 0
				for j := range evParents {
					if st.buffered&(1<<uint(j)) != 0 {
						n++
					}
				}
				return out == fmt.Sprint(n), st
			case "clear":
				st.buffered = 0
				return true, st
			}
			return true, st
		},
		Equal: func(a, b interface{}) bool { return a.(bufState) == b.(bufState) },
	}
}

func (e *env) model() (porcupine.Model, bool) {
	switch e.comp {
	case cFlushable:
		return kvModel(false), true
	case cLazy:
		return kvModel(true), true
	case cPool:
		return poolModel(), true
	case cWlru:
		return lruPorcupine(e.cacheMaxW, e.cacheMaxS), true
	case cSemaphore:
		return semModel(), true
	case cBuffer:
		return bufModel(), true
	}
	return porcupine.Model{}, false
}
