//go:build interleave

package harness

import (
	"bytes"
	"errors"

	"github.com/Fantom-foundation/lachesis-base/kvdb"
)

// NRStore is the store under the components in engine E4.  Every method is //go:norace and works
// on fixed-size arrays only (no maps, no append): the race detector neither reports the store's own
// accesses (tasks run one at a time, so they are sequential anyway) nor gains happens-before edges
// from it.  Conflicts on the fields of the component under test stay visible.
const nrCap = 96
const nrKV = 6

type nrEntry struct {
	used bool
	kl   int8
	vl   int8
	k    [nrKV]byte
	v    [nrKV]byte
}

type NRStore struct {
	e       [nrCap]nrEntry
	closed  bool
	dropped bool
	Writes  int
}

var errNRFull = errors.New("nrstore: full or key/value too long")

// (no copy(), bytes.Equal or append on the shared arrays: those compile to runtime calls that carry
// their own race hooks even when the caller is //go:norace)
//
//go:norace
func (s *NRStore) find(key []byte) int {
	for i := range s.e {
		if !s.e[i].used || int(s.e[i].kl) != len(key) {
			continue
		}
		eq := true
		for j := 0; j < len(key); j++ {
			if s.e[i].k[j] != key[j] {
				eq = false
				break
			}
		}
		if eq {
			return i
		}
	}
	return -1
}

//go:norace
func (s *NRStore) Has(key []byte) (bool, error) { return s.find(key) >= 0, nil }

//go:norace
func (s *NRStore) Get(key []byte) ([]byte, error) {
	i := s.find(key)
	if i < 0 {
		return nil, nil
	}
	out := make([]byte, s.e[i].vl)
	for j := range out {
		out[j] = s.e[i].v[j]
	}
	return out, nil
}

//go:norace
func (s *NRStore) put(key, value []byte) error {
	if len(key) > nrKV || len(value) > nrKV {
		return errNRFull
	}
	i := s.find(key)
	if i < 0 {
		for j := range s.e {
			if !s.e[j].used {
				i = j
				break
			}
		}
		if i < 0 {
			return errNRFull
		}
	}
	s.e[i].used, s.e[i].kl, s.e[i].vl = true, int8(len(key)), int8(len(value))
	for j := 0; j < len(key); j++ {
		s.e[i].k[j] = key[j]
	}
	for j := 0; j < len(value); j++ {
		s.e[i].v[j] = value[j]
	}
	s.Writes++
	return nil
}

//go:norace
func (s *NRStore) Put(key, value []byte) error { return s.put(key, value) }

//go:norace
func (s *NRStore) Delete(key []byte) error {
	if i := s.find(key); i >= 0 {
		s.e[i].used = false
	}
	s.Writes++
	return nil
}

func (s *NRStore) Stat(string) (string, error)  { return "", nil }
func (s *NRStore) Compact(a, b []byte) error    { return nil }

//go:norace
func (s *NRStore) Close() error { s.closed = true; return nil }

//go:norace
func (s *NRStore) Drop() { s.dropped = true }

type nrPair struct{ k, v []byte }

//go:norace
func (s *NRStore) pairs(prefix, start []byte) []nrPair {
	from := append(append([]byte{}, prefix...), start...)
	var tmp [nrCap]nrPair
	n := 0
	for i := range s.e {
		if !s.e[i].used {
			continue
		}
		k := make([]byte, s.e[i].kl)
		for j := range k {
			k[j] = s.e[i].k[j]
		}
		if !bytes.HasPrefix(k, prefix) || bytes.Compare(k, from) < 0 { // private copies: runtime hooks see fresh memory only
			continue
		}
		v := make([]byte, s.e[i].vl)
		for j := range v {
			v[j] = s.e[i].v[j]
		}
		// insertion sort
		j := n
		for j > 0 && bytes.Compare(tmp[j-1].k, k) > 0 {
			tmp[j] = tmp[j-1]
			j--
		}
		tmp[j] = nrPair{k, v}
		n++
	}
	out := make([]nrPair, n)
	copy(out, tmp[:n])
	return out
}

type nrIter struct {
	p []nrPair
	i int
}

func (it *nrIter) Next() bool {
	if it.i >= len(it.p) {
		it.i = len(it.p) + 1
		return false
	}
	it.i++
	return true
}
func (it *nrIter) Error() error { return nil }
func (it *nrIter) Key() []byte {
	if it.i < 1 || it.i > len(it.p) {
		return nil
	}
	return it.p[it.i-1].k
}
func (it *nrIter) Value() []byte {
	if it.i < 1 || it.i > len(it.p) {
		return nil
	}
	return it.p[it.i-1].v
}
func (it *nrIter) Release() {}

func (s *NRStore) NewIterator(prefix, start []byte) kvdb.Iterator {
	return &nrIter{p: s.pairs(prefix, start)}
}

type nrSnap struct{ p []nrPair }

func (s *NRStore) GetSnapshot() (kvdb.Snapshot, error) { return &nrSnap{p: s.pairs(nil, nil)}, nil }

func (sn *nrSnap) Has(key []byte) (bool, error) {
	for _, x := range sn.p {
		if bytes.Equal(x.k, key) {
			return true, nil
		}
	}
	return false, nil
}
func (sn *nrSnap) Get(key []byte) ([]byte, error) {
	for _, x := range sn.p {
		if bytes.Equal(x.k, key) {
			return append([]byte{}, x.v...), nil
		}
	}
	return nil, nil
}
func (sn *nrSnap) NewIterator(prefix, start []byte) kvdb.Iterator {
	from := append(append([]byte{}, prefix...), start...)
	var r []nrPair
	for _, x := range sn.p {
		if bytes.HasPrefix(x.k, prefix) && bytes.Compare(x.k, from) >= 0 {
			r = append(r, x)
		}
	}
	return &nrIter{p: r}
}
func (sn *nrSnap) Release() {}

type nrBatch struct {
	s   *NRStore
	ops []nrPair
	sz  int
}

func (s *NRStore) NewBatch() kvdb.Batch { return &nrBatch{s: s} }
func (b *nrBatch) Put(k, v []byte) error {
	b.ops = append(b.ops, nrPair{append([]byte{}, k...), append([]byte{}, v...)})
	b.sz += len(k) + len(v)
	return nil
}
func (b *nrBatch) Delete(k []byte) error {
	b.ops = append(b.ops, nrPair{append([]byte{}, k...), nil})
	b.sz += len(k)
	return nil
}
func (b *nrBatch) ValueSize() int { return b.sz }
func (b *nrBatch) Write() error {
	for _, o := range b.ops {
		var err error
		if o.v == nil {
			err = b.s.Delete(o.k)
		} else {
			err = b.s.Put(o.k, o.v)
		}
		if err != nil {
			return err
		}
	}
	return nil
}
func (b *nrBatch) Reset() { b.ops = b.ops[:0]; b.sz = 0 }
func (b *nrBatch) Replay(w kvdb.Writer) error {
	for _, o := range b.ops {
		var err error
		if o.v == nil {
			err = w.Delete(o.k)
		} else {
			err = w.Put(o.k, o.v)
		}
		if err != nil {
			return err
		}
	}
	return nil
}

// NRProducer hands out named NRStores (for the pool).
type NRProducer struct {
	names [8]string
	st    [8]*NRStore
	n     int
}

//go:norace
func (p *NRProducer) OpenDB(name string) (kvdb.Store, error) {
	for i := 0; i < p.n; i++ {
		if p.names[i] == name {
			return p.st[i], nil
		}
	}
	if p.n >= len(p.st) {
		return nil, errNRFull
	}
	p.names[p.n], p.st[p.n] = name, &NRStore{}
	p.n++
	return p.st[p.n-1], nil
}
