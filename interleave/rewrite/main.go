// Command rewrite prepares the scratch copy used by engine E4: it copies a lachesis-base tree and,
// in the lock-protected packages, replaces sync.Mutex / sync.RWMutex / sync.Cond / sync.NewCond and
// time.Now / Since / Until / Sleep / AfterFunc / Timer by their verifsimsync counterparts.  Method
// names are identical, so no call site changes.  Anything it does not model (channels, go
// statements, WaitGroup, NewTimer ...) inside those packages makes it fail with exit status 2.
package main

import (
	"bytes"
	"fmt"
	"go/ast"
	"go/format"
	"go/parser"
	"go/token"
	"io"
	"os"
	"path/filepath"
	"strings"
)

var targets = []string{"kvdb/flushable", "kvdb/synced", "utils/wlru", "utils/datasemaphore", "gossip/dagordering", "kvdb/cachedproducer"}

const simImport = "github.com/Fantom-foundation/lachesis-base/verifsimsync"

var syncMap = map[string]string{"Mutex": "Mutex", "RWMutex": "RWMutex", "Cond": "Cond", "NewCond": "NewCond"}
var timeMap = map[string]string{"Now": "Now", "Since": "Since", "Until": "Until", "Sleep": "Sleep", "AfterFunc": "AfterFunc", "Timer": "SimTimer"}
var timeKeep = map[string]bool{"Duration": true, "Time": true, "Millisecond": true, "Second": true, "Microsecond": true, "Nanosecond": true, "Minute": true, "Hour": true}
var syncKeep = map[string]bool{"Locker": true}

func die(f string, a ...interface{}) {
	fmt.Fprintf(os.Stderr, "rewrite: "+f+"\n", a...)
	os.Exit(2)
}

func copyTree(src, dst string) {
	err := filepath.Walk(src, func(p string, info os.FileInfo, err error) error {
		if err != nil {
			return err
		}
		rel, _ := filepath.Rel(src, p)
		if rel == ".git" || strings.HasPrefix(rel, ".git"+string(os.PathSeparator)) {
			if info.IsDir() {
				return filepath.SkipDir
			}
			return nil
		}
		out := filepath.Join(dst, rel)
		if info.IsDir() {
			return os.MkdirAll(out, 0o755)
		}
		if !info.Mode().IsRegular() {
			return nil
		}
		in, err := os.Open(p)
		if err != nil {
			return err
		}
		defer in.Close()
		o, err := os.Create(out)
		if err != nil {
			return err
		}
		defer o.Close()
		_, err = io.Copy(o, in)
		return err
	})
	if err != nil {
		die("copy: %v", err)
	}
}

func rewriteFile(path string) (changed bool) {
	fset := token.NewFileSet()
	f, err := parser.ParseFile(fset, path, nil, parser.ParseComments)
	if err != nil {
		die("%s: %v", path, err)
	}
	syncName, timeName := "", ""
	for _, im := range f.Imports {
		p := strings.Trim(im.Path.Value, `"`)
		name := ""
		if im.Name != nil {
			name = im.Name.Name
		}
		if p == "sync" {
			syncName = "sync"
			if name != "" {
				syncName = name
			}
		}
		if p == "time" {
			timeName = "time"
			if name != "" {
				timeName = name
			}
		}
		if p == "sync/atomic" && !strings.Contains(path, "flaggedproducer") {
			// atomics are real synchronisation the race detector understands; nothing to rewrite
		}
	}
	isTest := strings.HasSuffix(path, "_test.go")
	usedSync, usedTime := false, false
	ast.Inspect(f, func(n ast.Node) bool {
		switch x := n.(type) {
		case *ast.GoStmt:
			if !isTest {
				die("%s:%d: go statement in a rewritten package is not modelled", path, fset.Position(x.Pos()).Line)
			}
		case *ast.ChanType, *ast.SendStmt, *ast.SelectStmt:
			if !isTest {
				die("%s:%d: channel operation in a rewritten package is not modelled", path, fset.Position(n.Pos()).Line)
			}
		case *ast.UnaryExpr:
			if x.Op == token.ARROW && !isTest {
				die("%s:%d: channel receive in a rewritten package is not modelled", path, fset.Position(x.Pos()).Line)
			}
		case *ast.SelectorExpr:
			id, ok := x.X.(*ast.Ident)
			if !ok || id.Obj != nil {
				return true
			}
			if syncName != "" && id.Name == syncName {
				if to, ok := syncMap[x.Sel.Name]; ok {
					if isTest {
						usedSync = true
						return true
					}
					id.Name = "verifsimsync"
					x.Sel.Name = to
					changed = true
				} else if syncKeep[x.Sel.Name] || isTest {
					usedSync = true
				} else {
					die("%s:%d: sync.%s is not modelled", path, fset.Position(x.Pos()).Line, x.Sel.Name)
				}
			}
			if timeName != "" && id.Name == timeName {
				if to, ok := timeMap[x.Sel.Name]; ok {
					if isTest {
						usedTime = true
						return true
					}
					id.Name = "verifsimsync"
					x.Sel.Name = to
					changed = true
				} else if timeKeep[x.Sel.Name] || isTest {
					usedTime = true
				} else {
					die("%s:%d: time.%s is not modelled", path, fset.Position(x.Pos()).Line, x.Sel.Name)
				}
			}
		}
		return true
	})
	if !changed {
		return false
	}
	// fix imports: add verifsimsync, drop sync/time when no longer used
	var specs []ast.Spec
	for _, d := range f.Decls {
		gd, ok := d.(*ast.GenDecl)
		if !ok || gd.Tok != token.IMPORT {
			continue
		}
		specs = nil
		for _, s := range gd.Specs {
			is := s.(*ast.ImportSpec)
			p := strings.Trim(is.Path.Value, `"`)
			if p == "sync" && !usedSync {
				continue
			}
			if p == "time" && !usedTime {
				continue
			}
			specs = append(specs, s)
		}
		specs = append(specs, &ast.ImportSpec{Path: &ast.BasicLit{Kind: token.STRING, Value: `"` + simImport + `"`}})
		gd.Specs = specs
		if gd.Lparen == token.NoPos {
			gd.Lparen = gd.Pos()
			gd.Rparen = gd.End()
		}
		break
	}
	var buf bytes.Buffer
	if err := format.Node(&buf, fset, f); err != nil {
		die("%s: format: %v", path, err)
	}
	if err := os.WriteFile(path, buf.Bytes(), 0o644); err != nil {
		die("%v", err)
	}
	return true
}

func main() {
	if len(os.Args) != 4 {
		die("usage: rewrite <repo> <simsync-src-dir> <dst>")
	}
	src, simsrc, dst := os.Args[1], os.Args[2], os.Args[3]
	copyTree(src, dst)
	// the runtime becomes a package of the copied module
	if err := os.MkdirAll(filepath.Join(dst, "verifsimsync"), 0o755); err != nil {
		die("%v", err)
	}
	ents, _ := os.ReadDir(simsrc)
	for _, e := range ents {
		if strings.HasSuffix(e.Name(), ".go") {
			b, err := os.ReadFile(filepath.Join(simsrc, e.Name()))
			if err != nil {
				die("%v", err)
			}
			if err := os.WriteFile(filepath.Join(dst, "verifsimsync", e.Name()), b, 0o644); err != nil {
				die("%v", err)
			}
		}
	}
	n := 0
	for _, t := range targets {
		ents, err := os.ReadDir(filepath.Join(dst, t))
		if err != nil {
			die("%v", err)
		}
		for _, e := range ents {
			if strings.HasSuffix(e.Name(), ".go") {
				if rewriteFile(filepath.Join(dst, t, e.Name())) {
					n++
				}
			}
		}
	}
	// tuning knob lowered for this engine: with the store's 1-byte values a flush never reaches the shipped ideal
	// batch size of 100 KiB; 3 bytes make a flush of two or more pending pairs go down in several batch writes
	ifile := filepath.Join(dst, "kvdb", "interface.go")
	if b, err := os.ReadFile(ifile); err == nil && strings.Contains(string(b), "const IdealBatchSize = 100 * 1024") {
		nb := strings.Replace(string(b), "const IdealBatchSize = 100 * 1024", "const IdealBatchSize = 3", 1)
		if err := os.WriteFile(ifile, []byte(nb), 0o644); err != nil {
			die("%v", err)
		}
		fmt.Println("rewrite: kvdb.IdealBatchSize lowered to 3 in the scratch copy")
	} else {
		fmt.Println("rewrite: kvdb.IdealBatchSize not found in its usual form, left as it is")
	}
	fmt.Printf("rewrite: %d files rewritten in %d packages\n", n, len(targets))
}
